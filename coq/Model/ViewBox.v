(* color_glyph: viewBox -> font space / OT-SVG space placement, advance width *)
From Coq Require Import List ZArith Bool.
From Coq Require QArith Qround.
From Verif Require Import Model.Field Model.Affine Model.Fixed.
Import ListNotations.
Local Open Scope F_scope.

Section ViewBox.
Context {O : fops}.
Notation aff := (aff O).

(* scale_viewbox_to_font_metrics(view_box, ascender, descender, width) *)
Definition scale_viewbox_to_font_metrics (vb : rect O) (asc desc width : F O) : aff :=
  let scale := (asc - desc) / rh vb in
  let dx := (width - scale * rw vb) / (1 + 1) in
  compose_ltr [Aff 1 0 0 1 (- rx vb) (- ry vb); Aff scale 0 0 scale dx 0].

Definition map_viewbox_to_font_space (vb : rect O) (asc desc width : F O) (user : aff) : aff :=
  compose_ltr [scale_viewbox_to_font_metrics vb asc desc width; Aff 1 0 0 (fopp O 1) 0 asc; user].

Definition map_viewbox_to_otsvg_space (vb : rect O) (asc desc width : F O) (user : aff) : aff :=
  compose_ltr [scale_viewbox_to_font_metrics vb asc desc width; Aff 1 0 0 1 0 (- asc); user].

(* y-mirror that takes font space (y up) to OT-SVG space (y down, same origin) *)
Definition mirror_y : aff := Aff 1 0 0 (fopp O 1) 0 0.

(* _get_gradient_transform: objectBoundingBox -> bbox first; then gradientTransform first *)
Definition gradient_transform (place : aff) (bbox : option (rect O)) (gt : option aff) : aff :=
  let t1 := match bbox with
            | Some b => compose_ltr [rect_to_rect (Rect 0 0 1 1) b; place]
            | None => place
            end in
  match gt with Some g => compose_ltr [g; t1] | None => t1 end.
End ViewBox.

(* _advance_width(view_box, config): max(width, round(font_height * vb.w / vb.h)), on exact
   rationals for the viewBox and integers for the metrics *)
Definition advance_width (asc desc width : Z) (vbw vbh : QArith_base.Q) : Z :=
  Z.max width (py_round (QArith_base.Qdiv (QArith_base.Qmult (QArith_base.inject_Z (asc - desc)) vbw) vbh)).
