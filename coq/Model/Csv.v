(* Python's csv.writer(lineterminator="") (QUOTE_MINIMAL, doublequote) and
   csv.reader(skipinitialspace=True) (non-strict) as used by nanoemoji.glyphmap.
   Text is a list of code points.  The reader is a state machine over the whole text:
   LF ends a line (the file iterator splits there), CR outside quotes ends the record and
   must be followed by CR/LF/end of line (else csv.Error = None). *)
From Coq Require Import List NArith Bool.
Import ListNotations.
Local Open Scope N_scope.

Definition LF := 10. Definition CR := 13. Definition SP := 32.
Definition QUOTE := 34. Definition COMMA := 44.

Definition text := list N.

(* ---- writer ---- *)
Definition needs_quote (f : text) : bool := existsb (fun c => (c =? COMMA) || (c =? QUOTE)) f.
Definition double_quotes (f : text) : text :=
  flat_map (fun c => if c =? QUOTE then [QUOTE; QUOTE] else [c]) f.
Definition write_field (f : text) : text :=
  if needs_quote f then QUOTE :: double_quotes f ++ [QUOTE] else f.
Fixpoint join_fields (fs : list text) : text :=
  match fs with
  | [] => []
  | [f] => write_field f
  | f :: r => write_field f ++ COMMA :: join_fields r
  end.
Definition write_row (fs : list text) : text :=
  match fs with
  | [[]] => [QUOTE; QUOTE]          (* a lone empty field is written as "" *)
  | _ => join_fields fs
  end.

(* ---- reader ---- *)
Inductive st := SRec | SField | InF | InQ | QinQ | EatCR.

Fixpoint rd (s : st) (cur : text) (acc : list text) (rows : list (list text)) (t : text)
  : option (list (list text)) :=
  match t with
  | [] =>
    match s with
    | SRec | EatCR => Some rows
    | SField => Some (rows ++ [acc ++ [[]]])
    | InF | InQ | QinQ => Some (rows ++ [acc ++ [cur]])
    end
  | c :: r =>
    match s with
    | SRec =>
        if c =? LF then rd SRec [] [] (rows ++ [[]]) r
        else if c =? CR then rd EatCR [] [] (rows ++ [[]]) r
        else if c =? QUOTE then rd InQ [] [] rows r
        else if c =? SP then rd SField [] [] rows r
        else if c =? COMMA then rd SField [] [[]] rows r
        else rd InF [c] [] rows r
    | SField =>
        if c =? LF then rd SRec [] [] (rows ++ [acc ++ [[]]]) r
        else if c =? CR then rd EatCR [] [] (rows ++ [acc ++ [[]]]) r
        else if c =? QUOTE then rd InQ [] acc rows r
        else if c =? SP then rd SField [] acc rows r
        else if c =? COMMA then rd SField [] (acc ++ [[]]) rows r
        else rd InF [c] acc rows r
    | InF =>
        if c =? LF then rd SRec [] [] (rows ++ [acc ++ [cur]]) r
        else if c =? CR then rd EatCR [] [] (rows ++ [acc ++ [cur]]) r
        else if c =? COMMA then rd SField [] (acc ++ [cur]) rows r
        else rd InF (cur ++ [c]) acc rows r
    | InQ =>
        if c =? QUOTE then rd QinQ cur acc rows r
        else rd InQ (cur ++ [c]) acc rows r
    | QinQ =>
        if c =? QUOTE then rd InQ (cur ++ [QUOTE]) acc rows r
        else if c =? COMMA then rd SField [] (acc ++ [cur]) rows r
        else if c =? LF then rd SRec [] [] (rows ++ [acc ++ [cur]]) r
        else if c =? CR then rd EatCR [] [] (rows ++ [acc ++ [cur]]) r
        else rd InF (cur ++ [c]) acc rows r
    | EatCR =>
        if c =? LF then rd SRec [] [] rows r
        else if c =? CR then rd EatCR [] [] rows r
        else None
    end
  end.
Definition read_text (t : text) : option (list (list text)) := rd SRec [] [] [] t.

(* what the pair preserves *)
Definition no_newline (f : text) : bool := negb (existsb (fun c => (c =? LF) || (c =? CR)) f).
Definition field_safe (f : text) : bool :=
  no_newline f && (needs_quote f || match f with c :: _ => negb (c =? SP) | [] => true end).

(* the file write_glyphmap prints: one csv_line per row, each followed by LF *)
Definition write_rows (rs : list (list text)) : text := flat_map (fun r => write_row r ++ [LF]) rs.

(* ---- GlyphMapping.csv_line / glyphmap.load_from on top ---- *)
Definition hex_digit (d : N) : N := if d <? 10 then 48 + d else 87 + d.   (* lowercase *)
Fixpoint hex_rev (fuel : nat) (n : N) : text :=
  match fuel with
  | O => []
  | S k => if n <? 16 then [hex_digit n] else hex_digit (n mod 16) :: hex_rev k (n / 16)
  end.
Definition to_hex (n : N) : text := rev (hex_rev (S (S (N.to_nat (N.log2 n)))) n).
Fixpoint pad_left (k : nat) (c : N) (t : text) : text :=
  match k with O => t | S k' => if Nat.ltb (length t) k then pad_left k' c (c :: t) else t end.
Definition hex04 (n : N) : text := let h := to_hex n in repeat 48 (4 - length h) ++ h.   (* f"{c:04x}" *)

Definition hex_val (c : N) : option N :=
  if (48 <=? c) && (c <=? 57) then Some (c - 48)
  else if (97 <=? c) && (c <=? 102) then Some (c - 87)
  else if (65 <=? c) && (c <=? 70) then Some (c - 55)
  else None.
Fixpoint parse_hex_acc (acc : N) (t : text) : option N :=
  match t with
  | [] => Some acc
  | c :: r => match hex_val c with Some d => parse_hex_acc (acc * 16 + d) r | None => None end
  end.
Definition parse_hex (t : text) : option N := match t with [] => None | _ => parse_hex_acc 0 t end.

(* ---- GlyphMapping rows ---- *)
Record gmap := GMap { g_svg : option text; g_bitmap : option text; g_name : text; g_cps : list N }.
Definition opt_text (o : option text) : text := match o with Some t => t | None => [] end.
Definition csv_row (g : gmap) : list text :=
  [opt_text (g_svg g); opt_text (g_bitmap g); g_name g] ++
  match g_cps g with [] => [[]] | cps => map hex04 cps end.
Definition text_opt (t : text) : option text := match t with [] => None | _ => Some t end.
Fixpoint all_some {A} (l : list (option A)) : option (list A) :=
  match l with
  | [] => Some []
  | Some x :: r => match all_some r with Some xs => Some (x :: xs) | None => None end
  | None :: _ => None
  end.
(* one row of glyphmap.load_from; None = ValueError *)
Definition parse_row (r : list text) : option gmap :=
  match r with
  | s :: b :: n :: cps =>
      let cps' := match cps with
                  | [] | [[]] => Some []
                  | _ => all_some (map parse_hex cps)
                  end in
      match cps' with
      | Some c => match text_opt s, text_opt b with
                  | None, None => None     (* GlyphMapping.__post_init__ *)
                  | s', b' => Some (GMap s' b' n c)
                  end
      | None => None
      end
  | _ => None
  end.
