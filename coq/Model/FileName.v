(* codepoints.from_filename: regex.search(r"(?:^emoji_u)?(?:[-_]?([0-9a-fA-F]{1,}))+", stem),
   captures of group 1 read as hexadecimal.  The model is the scanner that regex denotes for a
   match starting at the beginning of the stem (leftmost match; every conventional name
   matches there): optional "emoji_u", then greedily [separator] hex-run, as long as a hex
   digit follows. *)
From Coq Require Import List NArith Bool.
From Verif Require Import Model.Csv.
Import ListNotations.
Local Open Scope N_scope.

Definition is_hex (c : N) : bool :=
  ((48 <=? c) && (c <=? 57)) || ((97 <=? c) && (c <=? 102)) || ((65 <=? c) && (c <=? 70)).
Definition is_sep (c : N) : bool := (c =? 45) || (c =? 95).     (* '-' '_' *)
Definition EMOJI_U : text := [101; 109; 111; 106; 105; 95; 117].   (* "emoji_u" *)

Fixpoint strip_prefix (p t : text) : option text :=
  match p, t with
  | [], _ => Some t
  | a :: p', b :: t' => if a =? b then strip_prefix p' t' else None
  | _ :: _, [] => None
  end.

(* longest run of hex digits at the head: (run, rest) *)
Fixpoint take_hex (t : text) : text * text :=
  match t with
  | c :: r => if is_hex c then let '(h, rest) := take_hex r in (c :: h, rest) else ([], t)
  | [] => ([], [])
  end.

(* the repeated group; fuel = length of the text *)
Fixpoint groups (fuel : nat) (t : text) : list text :=
  match fuel with
  | O => []
  | S k =>
    let t' := match t with c :: r => if is_sep c then r else t | [] => t end in
    match take_hex t' with
    | ([], _) => []                       (* no hex digit follows: the group does not match again *)
    | (h, rest) => h :: groups k rest
    end
  end.

Fixpoint all_some {A} (l : list (option A)) : option (list A) :=
  match l with
  | [] => Some []
  | Some x :: r => match all_some r with Some xs => Some (x :: xs) | None => None end
  | None :: _ => None
  end.

(* None: no match at the start of the stem (ValueError in the code, unless a later position matches) *)
Definition from_filename (stem : text) : option (list N) :=
  let plain := groups (length stem) stem in
  let gs := match strip_prefix EMOJI_U stem with
            | Some r => (match groups (length r) r with [] => plain | g => g end)   (* the optional prefix is tried first *)
            | None => plain
            end in
  match gs with
  | [] => None
  | _ => all_some (map parse_hex gs)
  end.

(* "_".join / "-".join of printed code points *)
Fixpoint join_c (sep : N) (ts : list text) : text :=
  match ts with
  | [] => []
  | [t] => t
  | t :: r => t ++ sep :: join_c sep r
  end.
