(* write_glyphmap_for_glyph_svgs.main: pairing "<gid>.svg" with "<gid>.png".

   input_files = sorted(files, key=stem, reverse=True); then, popping from the END:
     a .png must be followed by the .svg of the same number (else AssertionError), a .svg alone
     is a row without bitmap.
   Stems are the five-digit names of Model.Glue.gid_stem, for which the string order used by
   sorted() is the numeric order; the model keys files by that number. *)
From Coq Require Import List Arith Bool.
Import ListNotations.

Inductive fkind := KSvg | KPng.
Definition file := (nat * fkind)%type.

(* Python's sorted(..., reverse=True) is stable: equal keys keep their input order.
   Insertion from the right, each element going before the first one whose key is not greater. *)
Fixpoint insert_desc (x : file) (l : list file) : list file :=
  match l with
  | [] => [x]
  | y :: r => if Nat.ltb (fst x) (fst y) then y :: insert_desc x r else x :: l
  end.
Definition sorted_desc (l : list file) : list file := fold_right insert_desc [] l.

(* the while loop, on the list read from its end (= on the reversed list from its head);
   None = AssertionError; a row = (glyph id, has a bitmap) *)
Fixpoint pair_rows (fuel : nat) (q : list file) : option (list (nat * bool)) :=
  match fuel with
  | 0 => match q with [] => Some [] | _ => None end
  | S n =>
    match q with
    | [] => Some []
    | (k, KSvg) :: r => option_map (cons (k, false)) (pair_rows n r)
    | (k, KPng) :: (k', KSvg) :: r =>
        if Nat.eqb k k' then option_map (cons (k', true)) (pair_rows n r) else None
    | (k, KPng) :: _ => None
    end
  end.

Definition glyphmap_rows (files : list file) : option (list (nat * bool)) :=
  pair_rows (length files) (rev (sorted_desc files)).
