(* write_font._bounds / _quantize_bounding_rect on exact rationals.
   Input: for every PaintGlyph context reached by breadth_first, the list of control
   points of its glyph already mapped by the context transform (what TransformPen feeds
   ControlBoundsPen).  Output: the clip box, or None when nothing is painted. *)
From Coq Require Import List ZArith QArith Qround Qminmax Bool.
From Verif Require Import Model.Fixed.
Import ListNotations.
Local Open Scope Q_scope.

Definition box := (Q * Q * Q * Q)%type.   (* xMin, yMin, xMax, yMax *)
Definition zbox := (Z * Z * Z * Z)%type.

Definition bbox1 (p : Q * Q) : box := (fst p, snd p, fst p, snd p).
Definition bb_add (b : box) (p : Q * Q) : box :=
  let '(x0, y0, x1, y1) := b in (Qmin x0 (fst p), Qmin y0 (snd p), Qmax x1 (fst p), Qmax y1 (snd p)).
(* ControlBoundsPen.bounds: None for a glyph without points *)
Definition glyph_bbox (pts : list (Q * Q)) : option box :=
  match pts with [] => None | p :: r => Some (fold_left bb_add r (bbox1 p)) end.
(* fontTools.misc.arrayTools.unionRect *)
Definition union_rect (a b : box) : box :=
  let '(x0, y0, x1, y1) := a in let '(u0, v0, u1, v1) := b in
  (Qmin x0 u0, Qmin y0 v0, Qmax x1 u1, Qmax y1 v1).
Definition bounds_step (acc : option box) (pts : list (Q * Q)) : option box :=
  match glyph_bbox pts with
  | None => acc
  | Some b => match acc with None => Some b | Some a => Some (union_rect a b) end
  end.
Definition bounds_raw (gl : list (list (Q * Q))) : option box := fold_left bounds_step gl None.

(* math.floor(x / f) * f and math.ceil(x / f) * f on integers *)
Definition floor_to (f x : Z) : Z := (x / f * f)%Z.
Definition ceil_to (f x : Z) : Z := (- ((- x) / f) * f)%Z.
(* _quantize_bounding_rect; None = the assertion factor >= 1 *)
Definition quantize_rect (b : zbox) (factor : Z) : option zbox :=
  let '(x0, y0, x1, y1) := b in
  if (factor <? 1)%Z then None
  else Some (floor_to factor x0, floor_to factor y0, ceil_to factor x1, ceil_to factor y1).

Inductive bounds_result := NoBox | Box (b : zbox) | AssertFail.
Definition bounds (gl : list (list (Q * Q))) (factor : Z) : bounds_result :=
  match bounds_raw gl with
  | None => NoBox
  | Some (x0, y0, x1, y1) =>
    let r := (otRound x0, otRound y0, otRound x1, otRound y1) in
    if (1 <? factor)%Z then
      match quantize_rect r factor with Some q => Box q | None => AssertFail end
    else Box r
  end.

(* default quantisation: round(upem * 0.02) with Python's round; 0.02 is the double
   nearest to 1/50, passed in as [k002] (regenerated from the source) *)
Definition default_quantization (k002 : Q) (upem : Z) : Z := py_round (inject_Z upem * k002).
