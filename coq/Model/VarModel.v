(* write_variable_font: designspace axis ranges; interpolation as convex combination *)
From Coq Require Import List QArith Qminmax.
Import ListNotations.
Local Open Scope Q_scope.

(* axis minimum / maximum = min / max of the masters' positions on that axis *)
Fixpoint qmin_list (d : Q) (l : list Q) : Q := match l with [] => d | x :: r => Qmin x (qmin_list d r) end.
Fixpoint qmax_list (d : Q) (l : list Q) : Q := match l with [] => d | x :: r => Qmax x (qmax_list d r) end.
Definition axis_range (positions : list Q) : option (Q * Q) :=
  match positions with
  | [] => None                      (* min() of an empty sequence raises *)
  | p :: r => Some (qmin_list p r, qmax_list p r)
  end.

(* value of a master-wise quantity at a location with interpolation weights w (w_i >= 0, sum 1) *)
Fixpoint wsum (w v : list Q) : Q :=
  match w, v with
  | a :: w', x :: v' => a * x + wsum w' v'
  | _, _ => 0
  end.

(* ---- write_variable_font.main: what goes into the designspace document.
   An axis is (tag, name, default); a master's position is a list of (tag, value) as config.load
   leaves it (sorted by tag, whatever order the axes were declared in). *)
From Coq Require Import String.
Definition axis := (string * string * Q)%type.
Definition a_tag (a : axis) : string := fst (fst a).
Definition a_name (a : axis) : string := snd (fst a).
Definition a_default (a : axis) : Q := snd a.
Definition position := list (string * Q).

Fixpoint lookup_s {A} (k : string) (l : list (string * A)) : option A :=
  match l with
  | [] => None
  | (k', v) :: r => if String.eqb k k' then Some v else lookup_s k r
  end.

(* axis_names = {a.axisTag: a.name for a in axes}; a later axis with the same tag wins, as in a dict *)
Definition axis_names (axes : list axis) : list (string * string) :=
  rev (map (fun a => (a_tag a, a_name a)) axes).

(* location = {axis_names[p.axisTag]: p.position for p in master.position}: None = KeyError *)
Fixpoint location (names : list (string * string)) (pos : position) : option (list (string * Q)) :=
  match pos with
  | [] => Some []
  | (tag, v) :: r =>
      match lookup_s tag names, location names r with
      | Some n, Some rest => Some ((n, v) :: rest)
      | _, _ => None
      end
  end.
(* reading a key of the dict: the entry written last wins *)
Definition loc_value (name : string) (loc : list (string * Q)) : option Q := lookup_s name (rev loc).

(* positions of all masters on one axis: [p.position for m in masters for p in m.position if p.axisTag == tag] *)
Definition positions_on (tag : string) (masters : list position) : list Q :=
  flat_map (fun m => map snd (filter (fun p => String.eqb (fst p) tag) m)) masters.

(* the axis descriptor: (tag, name, minimum, default, maximum); None = min() of an empty sequence *)
Definition axis_def (a : axis) (masters : list position) : option (string * string * Q * Q * Q) :=
  match axis_range (positions_on (a_tag a) masters) with
  | Some (lo, hi) => Some (a_tag a, a_name a, lo, a_default a, hi)
  | None => None
  end.
