(* write_variable_font: designspace axis ranges; interpolation as convex combination *)
From Coq Require Import List QArith Qminmax.
Import ListNotations.
Local Open Scope Q_scope.

(* axis minimum / maximum = min / max of the masters' positions on that axis *)
Fixpoint qmin_list (d : Q) (l : list Q) : Q := match l with [] => d | x :: r => Qmin x (qmin_list d r) end.
Fixpoint qmax_list (d : Q) (l : list Q) : Q := match l with [] => d | x :: r => Qmax x (qmax_list d r) end.
Definition axis_range (positions : list Q) : option (Q * Q) :=
  match positions with
  | [] => None                      (* min() of an empty sequence raises *)
  | p :: r => Some (qmin_list p r, qmax_list p r)
  end.

(* value of a master-wise quantity at a location with interpolation weights w (w_i >= 0, sum 1) *)
Fixpoint wsum (w v : list Q) : Q :=
  match w, v with
  | a :: w', x :: v' => a * x + wsum w' v'
  | _, _ => 0
  end.
