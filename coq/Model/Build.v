(* The build as a function of its inputs (C08) and ninja's incremental re-execution (C09).

   Files and commands are identified by integers.  A build edge has one output, a list of
   (explicit + implicit) inputs and a command id (rule + variables + response-file content,
   everything ninja hashes).  Tools are hermetic: the output content is a function [exec] of
   the command and the contents of the declared inputs. *)
From Coq Require Import List ZArith Bool Arith.
Import ListNotations.

(* ---- C08-T1: source collection in config.load: set(...) | additional_srcs, abspath, sorted ---- *)
Section Sources.
Fixpoint insert_sorted (x : Z) (l : list Z) : list Z :=
  match l with
  | [] => [x]
  | y :: r => if Z.ltb x y then x :: y :: r else if Z.eqb x y then y :: r else y :: insert_sorted x r
  end.
(* sorted(set(args)): paths are numbered in path order *)
Definition sources (args : list Z) : list Z := fold_right insert_sorted [] args.
End Sources.

(* ---- C08-T3: _dest_for_src: the n-th distinct source with a given file name goes to
   <dir>/<n>/<name> (n = 0: <dir>/<name>), in first-seen order ---- *)
Section Dest.
(* a source = (path id, file-name id); names_seen maps (n, name) -> path *)
Definition seen := list (nat * Z * Z).
Fixpoint lookup_seen (n : nat) (name : Z) (s : seen) : option Z :=
  match s with
  | [] => None
  | (n', nm, p) :: r => if Nat.eqb n n' && Z.eqb name nm then Some p else lookup_seen n name r
  end.
Fixpoint find_slot (fuel : nat) (n : nat) (name path : Z) (s : seen) : nat :=
  match fuel with
  | 0 => n
  | S k => match lookup_seen n name s with
           | None => n
           | Some p => if Z.eqb p path then n else find_slot k (S n) name path s
           end
  end.
Definition dest_for_src (s : seen) (path name : Z) : (nat * Z) * seen :=
  let n := find_slot (S (length s)) 0 name path s in
  ((n, name), (n, name, path) :: s).
Fixpoint dests (s : seen) (srcs : list (Z * Z)) : list (Z * (nat * Z)) :=
  match srcs with
  | [] => []
  | (p, nm) :: r => let '(d, s') := dest_for_src s p nm in (p, d) :: dests s' r
  end.
End Dest.

(* ---- C08-T4 / C09: the build graph ---- *)
Record edge := Edge { e_out : Z; e_ins : list Z; e_cmd : Z }.

Section Exec.
Variable exec : Z -> list Z -> Z.          (* command id, input contents -> output content *)
Definition fs := Z -> option Z.             (* file -> content *)
Definition upd (f : fs) (k v : Z) : fs := fun x => if Z.eqb x k then Some v else f x.
Definition read (f : fs) (k : Z) : Z := match f k with Some v => v | None => 0%Z end.
Definition run_edge (f : fs) (e : edge) : fs := upd f (e_out e) (exec (e_cmd e) (map (read f) (e_ins e))).
Definition run_schedule (f : fs) (sched : list edge) : fs := fold_left run_edge sched f.

(* a schedule is valid for a graph (a list of edges in some topological order) if it runs
   exactly the graph's edges, each after the producers of its inputs *)
Definition produced_by (g : list edge) (x : Z) : option edge := find (fun e => Z.eqb (e_out e) x) g.
Fixpoint valid_from (g : list edge) (done : list Z) (sched : list edge) : bool :=
  match sched with
  | [] => true
  | e :: r =>
    forallb (fun i => match produced_by g i with
                      | Some _ => existsb (Z.eqb i) done     (* produced input: producer already ran *)
                      | None => true                         (* a source file *)
                      end) (e_ins e)
    && negb (existsb (Z.eqb (e_out e)) done)
    && valid_from g (e_out e :: done) r
  end.
Definition valid_schedule (g sched : list edge) : bool := valid_from g [] sched.

(* graph well-formedness: unique outputs, outputs are not inputs of earlier edges (the list
   is topologically ordered), outputs are not source files *)
Fixpoint wf_graph_from (outs : list Z) (g : list edge) : bool :=
  match g with
  | [] => true
  | e :: r =>
    negb (existsb (Z.eqb (e_out e)) outs) &&
    negb (existsb (Z.eqb (e_out e)) (e_ins e)) &&
    forallb (fun e' => negb (existsb (Z.eqb (e_out e')) (e_ins e))) r &&
    wf_graph_from (e_out e :: outs) r
  end.
Definition wf_graph (g : list edge) : bool := wf_graph_from [] g.

(* the value every output must have: computed along the topological order *)
Definition value_fs (src : fs) (g : list edge) : fs := run_schedule src g.
End Exec.
