(* C18 -- A variable colour font reproduces each master at its location (the designspace logic
   and the convexity argument for clip boxes; interpolation itself is ufo2ft/fontTools). *)
From Coq Require Import List QArith Qminmax Lqa String.
From Verif Require Import Model.VarModel Proofs.VarModel_facts.
Import ListNotations.
Local Open Scope Q_scope.

(* T1: the axis range written to the designspace contains every master's position *)
Theorem C18_axis_range_contains : forall positions lo hi,
  axis_range positions = Some (lo, hi) -> forall p, In p positions -> lo <= p <= hi.
Proof. exact axis_range_contains. Qed.
Print Assumptions C18_axis_range_contains.

(* T2: for any number of masters and any non-negative interpolation weights, an edge-wise
   inequality between master values (box edge vs point coordinate) survives interpolation: on
   one axis, where the engine interpolates between adjacent masters with weights (1-t, t), the
   interpolated clip box contains the interpolated geometry whenever each master's does *)
Theorem C18_wsum_monotone : forall w a b,
  Forall (fun x => 0 <= x) w -> List.length a = List.length w -> List.length b = List.length w ->
  Forall2 Qle a b -> wsum w a <= wsum w b.
Proof. exact wsum_monotone. Qed.
Print Assumptions C18_wsum_monotone.


(* T3: what write_variable_font puts into the designspace: every master sits, on every axis, at
   the position its configuration gives for that axis's tag, whatever order the axes were
   declared in (positions arrive sorted by tag), provided axis names are unambiguous *)
Theorem C18_location_by_tag :
  forall (names : list (string * string)) (pos : position) loc,
  NoDup (map snd names) -> NoDup (map fst pos) ->
  location names pos = Some loc ->
  forall tag v n, In (tag, v) pos -> lookup_s tag names = Some n -> loc_value n loc = Some v.
Proof. exact location_by_tag. Qed.
Print Assumptions C18_location_by_tag.

(* T4: the axis descriptor carries the configured default (not the lowest position, not another
   axis's) and a range that contains every master's position on that axis *)
Theorem C18_axis_def_spec :
  forall (a : axis) masters tag name lo dflt hi,
  axis_def a masters = Some (tag, name, lo, dflt, hi) ->
  tag = a_tag a /\ name = a_name a /\ dflt = a_default a /\
  forall m v, In m masters -> In (a_tag a, v) m -> lo <= v <= hi.
Proof. exact axis_def_spec. Qed.
Print Assumptions C18_axis_def_spec.

(* a position on a tag no axis declares stops the program *)
Theorem C18_location_unknown_tag :
  forall names pos tag v, In (tag, v) pos -> lookup_s tag names = None -> location names pos = None.
Proof. exact location_unknown_tag. Qed.
Print Assumptions C18_location_unknown_tag.
