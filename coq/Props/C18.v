(* C18 -- A variable colour font reproduces each master at its location (the designspace logic
   and the convexity argument for clip boxes; interpolation itself is ufo2ft/fontTools). *)
From Coq Require Import List QArith Qminmax Lqa.
From Verif Require Import Model.VarModel Proofs.VarModel_facts.
Import ListNotations.
Local Open Scope Q_scope.

(* T1: the axis range written to the designspace contains every master's position *)
Theorem C18_axis_range_contains : forall positions lo hi,
  axis_range positions = Some (lo, hi) -> forall p, In p positions -> lo <= p <= hi.
Proof. exact axis_range_contains. Qed.
Print Assumptions C18_axis_range_contains.

(* T2: for any number of masters and any non-negative interpolation weights, an edge-wise
   inequality between master values (box edge vs point coordinate) survives interpolation: on
   one axis, where the engine interpolates between adjacent masters with weights (1-t, t), the
   interpolated clip box contains the interpolated geometry whenever each master's does *)
Theorem C18_wsum_monotone : forall w a b,
  Forall (fun x => 0 <= x) w -> length a = length w -> length b = length w ->
  Forall2 Qle a b -> wsum w a <= wsum w b.
Proof. exact wsum_monotone. Qed.
Print Assumptions C18_wsum_monotone.

