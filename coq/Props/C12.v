(* C12 -- maximum_color adds colour tables without altering the font.
   Only statements and `exact`; proofs live in Proofs/. *)
From Coq Require Import List ZArith NArith QArith Permutation Sorted.
From Verif Require Import Model.Field Model.Affine Model.ViewBox Model.Glue Model.Csv Model.Fixed.
From Verif Require Import Proofs.Glue_facts Proofs.GluePlace_facts Model.GlyphmapPairs Proofs.GlyphmapPairs_facts.
Import ListNotations.

(* T1 (_copy_svg): when the order construction succeeds every donor SVG glyph sits at its
   donor glyph id and the new order is a permutation of the target's glyph order *)
Theorem C12_copy_svg_order :
  forall (G : Type) (geqb : G -> G -> bool), (forall a b, geqb a b = true <-> a = b) ->
  forall (target_order : list G) (svg : list (nat * G)) (new : list G),
  increasing_from G 0 svg -> NoDup target_order -> NoDup (map snd svg) ->
  (forall n, In n (map snd svg) -> In n target_order) ->
  copy_svg_order G geqb target_order svg = Some new ->
  (forall g n, In (g, n) svg -> nth_error new g = Some n) /\ Permutation new target_order.
Proof. exact copy_svg_order_spec. Qed.
Print Assumptions C12_copy_svg_order.

(* T4a: "{gid:05d}.svg" reads back as gid (write_glyphmap_for_glyph_svgs indexes the glyph
   order with it), for every glyph id; so distinct glyphs get distinct files *)
Theorem C12_gid_stem_roundtrip : forall gid, stem_gid (gid_stem gid) = Some gid.
Proof. exact gid_stem_roundtrip. Qed.
Print Assumptions C12_gid_stem_roundtrip.
Theorem C12_gid_stem_injective : forall g1 g2, gid_stem g1 = gid_stem g2 -> g1 = g2.
Proof. exact gid_stem_injective. Qed.
Print Assumptions C12_gid_stem_injective.

(* T4b: width = 0 + viewBox "0 0 w (asc-desc)": the advance is kept *)
Theorem C12_advance_kept : forall asc desc w : Z,
  (asc - desc <> 0)%Z -> (0 <= w)%Z ->
  advance_width asc desc 0 (inject_Z w) (inject_Z (asc - desc)) = w.
Proof. exact advance_kept. Qed.
Print Assumptions C12_advance_kept.

(* T5a: an OT-SVG glyph extracted by extract_svgs_from_otsvg and rebuilt as COLR is placed
   at the mirror image (font space y up) of where the OT-SVG glyph was: no scale, no shift *)
Theorem C12_extract_otsvg_place :
  forall (O : fops), field_theory (f0 O) (f1 O) (fadd O) (fmul O) (fsub O) (fopp O) (fdiv O) (finv O) eq ->
  (fadd O (f1 O) (f1 O)) <> f0 O ->
  forall (asc desc w : F O) (p : pt O),
  fsub O asc desc <> f0 O ->
  map_point (map_viewbox_to_font_space (Rect (f0 O) (f0 O) w (fsub O asc desc)) asc desc w aid)
            (map_point (Aff (f1 O) (f0 O) (f0 O) (f1 O) (f0 O) asc) p) = Pt (px p) (fopp O (py p)).
Proof. exact (fun O Fth two => @extract_otsvg_place O Fth two). Qed.
Print Assumptions C12_extract_otsvg_place.

(* T5b: an SVG generated from COLR under viewBox = glyph_region and rebuilt as OT-SVG gets
   the identity placement *)
Theorem C12_generate_from_colr_place :
  forall (O : fops), field_theory (f0 O) (f1 O) (fadd O) (fmul O) (fsub O) (fopp O) (fdiv O) (finv O) eq ->
  (fadd O (f1 O) (f1 O)) <> f0 O ->
  forall (asc desc w : F O),
  fsub O asc desc <> f0 O ->
  map_viewbox_to_otsvg_space (Rect (f0 O) (fopp O asc) w (fsub O asc desc)) asc desc w aid = aid.
Proof. exact (fun O Fth two => @generate_from_colr_place O Fth two). Qed.
Print Assumptions C12_generate_from_colr_place.

(* T2 (_copy_colr): the target's glyphs keep their ids and the new order names every glyph once,
   provided the donor's layer glyph names are fresh in the target; a shared name breaks it *)
Theorem C12_copy_colr_order :
  forall (G : Type) (target layers : list G),
  NoDup target -> NoDup layers -> (forall g, In g layers -> ~ In g target) ->
  NoDup (copy_colr_order target layers) /\
  (forall i g, nth_error target i = Some g -> nth_error (copy_colr_order target layers) i = Some g) /\
  (forall g, In g layers -> In g (copy_colr_order target layers)).
Proof. exact copy_colr_order_spec. Qed.
Print Assumptions C12_copy_colr_order.
Theorem C12_copy_colr_order_clash :
  forall (G : Type) (target layers : list G) (g : G),
  In g target -> In g layers -> ~ NoDup (copy_colr_order target layers).
Proof. exact copy_colr_order_clash. Qed.
Print Assumptions C12_copy_colr_order_clash.

(* T6 (write_glyphmap_for_glyph_svgs): when the per-glyph SVG files are listed before the
   bitmaps (as maximum_color lists them), every SVG gets exactly one row, rows come in increasing
   glyph id, and a row carries a bitmap exactly when a bitmap of the same number was listed - the
   AssertionErrors of the pairing loop cannot fire.  (Listing a bitmap before its SVG is what
   would break the pairing: the sort is stable and the loop reads from the end.) *)
Theorem C12_glyphmap_rows_spec :
  forall (svgs pngs : list nat),
  NoDup svgs -> NoDup pngs -> incl pngs svgs ->
  exists rows,
    glyphmap_rows (svg_files svgs ++ png_files pngs) = Some rows /\
    StronglySorted lt (map fst rows) /\
    Permutation (map fst rows) svgs /\
    (forall k b, In (k, b) rows -> (b = true <-> In k pngs)).
Proof. exact glyphmap_rows_spec. Qed.
Print Assumptions C12_glyphmap_rows_spec.
