(* C04 -- Every source is reachable from its codepoints, and only from them. *)
From Coq Require Import List NArith ZArith Bool Arith.
From Verif Require Import Model.Shaping Proofs.Shaping_facts Model.Fixed Model.ViewBox Proofs.Advance_facts.
Import ListNotations.

(* T1: with pairwise distinct single-codepoint glyph names, shaping a multi-codepoint source
   sequence (cmap, then longest-first ligatures) yields exactly that source's glyph -- for every
   set of sequences, including prefixes/extensions of one another and shared components *)
Theorem C04_shape_sequence :
  forall (G : Type) (geqb : G -> G -> bool) (name : list N -> G),
    (forall a b, geqb a b = true <-> a = b) ->
    (forall a b, single G name a = single G name b -> a = b) ->
    forall (seqs : list (list N)) (s : list N),
      In s seqs -> 1 < length s -> shape G geqb name seqs s = [name s].
Proof. exact shape_sequence. Qed.
Print Assumptions C04_shape_sequence.

Theorem C04_shape_single :
  forall (G : Type) (geqb : G -> G -> bool) (name : list N -> G),
    (forall a b, geqb a b = true <-> a = b) ->
    forall (seqs : list (list N)) (c : N), shape G geqb name seqs [c] = [single G name c].
Proof. exact shape_single. Qed.
Print Assumptions C04_shape_single.

(* T2: blank glyphs exactly for the codepoints that occur only inside sequences *)
Theorem C04_every_codepoint_has_a_glyph :
  forall (seqs : list (list N)) (s : list N) (c : N),
    In s seqs -> In c s -> In c (direct_cps seqs) \/ In c (need_blanks seqs).
Proof. exact every_codepoint_has_a_glyph. Qed.
Print Assumptions C04_every_codepoint_has_a_glyph.
Theorem C04_blanks_disjoint_from_sources :
  forall (seqs : list (list N)) (c : N), In c (need_blanks seqs) -> ~ In c (direct_cps seqs).
Proof. exact blanks_disjoint_from_sources. Qed.
Print Assumptions C04_blanks_disjoint_from_sources.

(* T3: the advance rule (shared with C01) *)
Theorem C04_advance_rule : forall (asc desc width : BinNums.Z) vbw vbh,
  let a := advance_width asc desc width vbw vbh in
  (width <= a)%Z /\ (a = width%Z \/ a = py_round (QArith_base.Qdiv (QArith_base.Qmult (QArith_base.inject_Z (asc - desc)) vbw) vbh)).
Proof. exact advance_rule_simple. Qed.
Print Assumptions C04_advance_rule.
