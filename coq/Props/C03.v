(* C03 -- COLRv0 and glyf builds lose only what those formats cannot express. *)
From Coq Require Import List ZArith QArith Qcanon Bool String Permutation Field.
From Verif Require Import Model.Field Model.Affine Model.Color Model.Paint Model.ColrSem
  Proofs.Affine_facts Proofs.Bfs_facts Corr.Common.
Import ListNotations.

(* T1: under the invariant _migrate_paths_to_ufo_glyphs establishes (at most one transform
   paint above any PaintGlyph, fills contain no PaintGlyph) the (glyph, transform, fill)
   contexts Paint.breadth_first yields -- what _colr0_layers, _glyf_ufo and _bounds consume --
   are exactly the placements of the COLR rendering semantics: every outline once, at the
   transform a COLRv1 renderer would apply *)
Theorem C03_breadth_first_placements :
  forall (O : fops),
    field_theory (f0 O) (f1 O) (fadd O) (fmul O) (fsub O) (fopp O) (fdiv O) (finv O) eq ->
    forall p : paint O,
      transform_depth_le 1 p = true -> simple_fills p = true ->
      Permutation (glyph_ctxs (breadth_first p)) (placements p aid).
Proof. exact (fun O Fth => @breadth_first_placements O Fth). Qed.
Print Assumptions C03_breadth_first_placements.

(* breadth-first and depth-first enumerate the same contexts, for every paint tree *)
Theorem C03_breadth_first_perm :
  forall (O : fops) (p : paint O), Permutation (breadth_first p) (ctxs p aid).
Proof. exact (fun O => @breadth_first_perm O). Qed.
Print Assumptions C03_breadth_first_perm.

(* L1 (latent, unreachable from nanoemoji's own trees): with two nested transform paints
   breadth_first composes them in the wrong order *)
Definition nested_example : QPaint :=
  LTranslate (q 10 1) (q 0 1) (LScale (q 2 1) (q 2 1) (LGlyph "g" (LSolid (C5 0 0 0 (q 1 1) None)))).
Theorem C03_breadth_first_nested_refuted :
  map (fun c => snd (fst c)) (glyph_ctxs (breadth_first nested_example)) <>
  map (fun c => snd (fst c)) (placements nested_example aid).
Proof. vm_compute. discriminate. Qed.
Print Assumptions C03_breadth_first_nested_refuted.
