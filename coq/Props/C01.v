(* C01 -- COLRv1 glyph paints the same picture as its source SVG (the parts that are
   nanoemoji's own logic; see DESIGN for what is end-to-end only). *)
From Coq Require Import List ZArith QArith Bool Field.
From Verif Require Import Model.Field Model.Affine Model.Fixed Model.ViewBox Model.Compile
  Proofs.Affine_facts Proofs.ViewBox_facts Proofs.Advance_facts Proofs.Compile_facts.
Import ListNotations.

(* T1: placement = user o flip-at-ascender o uniform scale to em height, centred in the advance *)
Theorem C01_place_spec :
  forall (O : fops),
    field_theory (f0 O) (f1 O) (fadd O) (fmul O) (fsub O) (fopp O) (fdiv O) (finv O) eq ->
    forall (vb : rect O) (asc desc width : F O) (U : aff O) (p : pt O),
      rh vb <> f0 O ->
      let s := fdiv O (fsub O asc desc) (rh vb) in
      let dx := fdiv O (fsub O width (fmul O s (rw vb))) (fadd O (f1 O) (f1 O)) in
      map_point (map_viewbox_to_font_space vb asc desc width U) p =
      map_point U (Pt (fadd O (fmul O s (fsub O (px p) (rx vb))) dx) (fsub O asc (fmul O s (fsub O (py p) (ry vb))))).
Proof. exact (fun O Fth => @place_spec O Fth). Qed.
Print Assumptions C01_place_spec.

(* T2: advance rule *)
Theorem C01_advance_rule : forall asc desc width vbw vbh,
  let X := (inject_Z (asc - desc) * vbw / vbh)%Q in
  let a := advance_width asc desc width vbw vbh in
  (width <= a)%Z /\ (py_round X <= a)%Z /\ (a = width \/ a = py_round X) /\
  (X - (1#2) <= inject_Z a)%Q /\
  (a = py_round X -> (inject_Z a <= X + (1#2))%Q) /\
  (- (1#4) <= (inject_Z a - X) * (1#2))%Q.
Proof. exact advance_rule. Qed.
Print Assumptions C01_advance_rule.

(* T3: the reversed-pre-order / depth-stack loop returns exactly the source's top-level items,
   as trees in source order, for every picosvg-normal source (groups have >= 2 children and
   0 < opacity < 1): no layer dropped, reordered or regrouped, no assertion fires *)
Theorem C01_painted_layers_spec :
  forall (P A : Type) (alpha_ok : A -> bool) (roots : forest P A),
    wf_forest P A alpha_ok roots = true ->
    painted_layers P A alpha_ok (depth_first P A roots) = Some (list_of P A roots).
Proof. exact painted_layers_spec. Qed.
Print Assumptions C01_painted_layers_spec.

(* T4a: a linear gradient's colour function is carried along by any invertible affine applied
   to its three points (what PaintLinearGradient.apply_transform does) *)
Theorem C01_lin_covariant :
  forall (O : fops),
    field_theory (f0 O) (f1 O) (fadd O) (fmul O) (fsub O) (fopp O) (fdiv O) (finv O) eq ->
    forall (A : aff O) (p0 p1 p2 x : pt O),
      adet A <> f0 O ->
      det2 (fsub O (px p1) (px p0)) (fsub O (py p1) (py p0)) (fsub O (px p2) (px p0)) (fsub O (py p2) (py p0)) <> f0 O ->
      lin_t (map_point A p0) (map_point A p1) (map_point A p2) (map_point A x) = lin_t p0 p1 p2 x.
Proof. exact (fun O Fth => @lin_covariant O Fth). Qed.
Print Assumptions C01_lin_covariant.

(* T4b: p2 = p0 + perpendicular(p1 - p0) gives the SVG projection formula *)
Theorem C01_lin_t_default_p2 :
  forall (O : fops),
    field_theory (f0 O) (f1 O) (fadd O) (fmul O) (fsub O) (fopp O) (fdiv O) (finv O) eq ->
    forall (p0 p1 x : pt O),
      let dx := fsub O (px p1) (px p0) in let dy := fsub O (py p1) (py p0) in
      fadd O (fmul O dx dx) (fmul O dy dy) <> f0 O ->
      lin_t p0 p1 (Pt (fadd O (px p0) dy) (fsub O (py p0) dx)) x =
      fdiv O (fadd O (fmul O (fsub O (px x) (px p0)) dx) (fmul O (fsub O (py x) (py p0)) dy))
             (fadd O (fmul O dx dx) (fmul O dy dy)).
Proof. exact (fun O Fth => @lin_t_default_p2 O Fth). Qed.
Print Assumptions C01_lin_t_default_p2.

(* T4c: a uniform transform (s, 0, 0, +-s, e, f) scales every squared distance by s^2, hence maps
   circle t of (c0, r0, c1, r1) onto circle t of (U c0, s r0, U c1, s r1) *)
Theorem C01_rad_uniform_covariant :
  forall (O : fops),
    field_theory (f0 O) (f1 O) (fadd O) (fmul O) (fsub O) (fopp O) (fdiv O) (finv O) eq ->
    forall (s e f sgn : F O) (c x : pt O),
      fmul O sgn sgn = f1 O ->
      let U := Aff s (f0 O) (f0 O) (fmul O sgn s) e f in
      let dx := fsub O (px (map_point U x)) (px (map_point U c)) in
      let dy := fsub O (py (map_point U x)) (py (map_point U c)) in
      fadd O (fmul O dx dx) (fmul O dy dy) =
      fmul O (fmul O s s) (fadd O (fmul O (fsub O (px x) (px c)) (fsub O (px x) (px c)))
                                   (fmul O (fsub O (py x) (py c)) (fsub O (py x) (py c)))).
Proof. exact (fun O Fth => @rad_uniform_covariant O Fth). Qed.
Print Assumptions C01_rad_uniform_covariant.
