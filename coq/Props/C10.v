(* C10 -- What the driver resolves is exactly what the build steps see. *)
From Coq Require Import List NArith Bool.
From Verif Require Import Model.Csv Proofs.Csv_facts Model.GlyphName Proofs.GlyphName_facts Model.FileName Proofs.FileName_facts.
Import ListNotations.
Local Open Scope N_scope.

(* T2: csv writer/reader pair: any list of rows (>= 2 fields each, as every glyph-map row
   has) whose fields contain no CR/LF and, when unquoted, do not start with a space, is
   read back exactly *)
Theorem C10_csv_roundtrip : forall rs, Forall row_ok rs -> read_text (write_rows rs) = Some rs.
Proof. exact csv_roundtrip. Qed.
Print Assumptions C10_csv_roundtrip.

(* ... and both side conditions are necessary (finding F4) *)
Theorem C10_csv_roundtrip_refuted_space :
  exists r, (2 <= length r)%nat /\ read_text (write_rows [r]) <> Some [r].
Proof. exact csv_roundtrip_refuted_space. Qed.
Print Assumptions C10_csv_roundtrip_refuted_space.
Theorem C10_csv_roundtrip_refuted_newline :
  exists r, (2 <= length r)%nat /\ read_text (write_rows [r]) <> Some [r].
Proof. exact csv_roundtrip_refuted_newline. Qed.
Print Assumptions C10_csv_roundtrip_refuted_newline.

(* codepoints are written as %04x and parsed back with int(s, 16) *)
Theorem C10_hex04_roundtrip : forall n, parse_hex (hex04 n) = Some n.
Proof. exact hex04_roundtrip. Qed.
Print Assumptions C10_hex04_roundtrip.

(* a GlyphMapping with at least one non-empty path survives csv_row / parse_row,
   including the empty codepoint list *)
Theorem C10_glyphmap_row_roundtrip : forall g, gmap_ok g -> parse_row (csv_row g) = Some g.
Proof. exact glyphmap_row_roundtrip. Qed.
Print Assumptions C10_glyphmap_row_roundtrip.

(* T4: glyph names.  For sequences over code points above U+0020 (none of U+000A..U+000F, whose
   hexadecimal spelling is a single letter) two different sequences with un-hashed names get
   different names -- except that a name which needed the "g_" prefix is also the name of the
   sequence that spells it with the letter g (known finding F3, witnessed below) *)
Theorem C10_glyph_name_injective :
  forall (a b : list N) (na : text),
    Forall unambiguous a -> Forall unambiguous b -> a <> [] -> b <> [] ->
    glyph_name a = Some na -> glyph_name b = Some na ->
    a = b \/ g_spelled a b \/ g_spelled b a.
Proof. exact glyph_name_injective. Qed.
Print Assumptions C10_glyph_name_injective.
Theorem C10_raw_name_injective :
  forall a b : list N, Forall unambiguous a -> Forall unambiguous b -> raw_name a = raw_name b -> a = b.
Proof. exact raw_name_injective. Qed.
Print Assumptions C10_raw_name_injective.
Theorem C10_g_prefix_collision : glyph_name [103; 128512] = glyph_name [128512].
Proof. exact g_prefix_collision. Qed.
Print Assumptions C10_g_prefix_collision.

(* T5: code points encoded in a conventional source file stem are recovered exactly: with or
   without the "emoji_u" prefix, with '-' or '_' between code points, for every printer of a
   code point that writes a non-empty hexadecimal numeral (any padding, either letter case) *)
Theorem C10_from_filename_roundtrip :
  forall (pr : N -> text) (sep c : N) (cps : list N),
    hex_printer pr -> is_sep sep = true ->
    from_filename (join_c sep (map pr (c :: cps))) = Some (c :: cps) /\
    from_filename (EMOJI_U ++ join_c sep (map pr (c :: cps))) = Some (c :: cps).
Proof. exact from_filename_roundtrip. Qed.
Print Assumptions C10_from_filename_roundtrip.
Theorem C10_hex04_is_printer : hex_printer hex04.
Proof. exact hex04_is_printer. Qed.
Print Assumptions C10_hex04_is_printer.
