(* C11 -- Reordering glyphs leaves every table's meaning intact. *)
From Coq Require Import List ZArith Bool Permutation Sorted.
From Verif Require Import Model.Reorder Proofs.Reorder_facts Generated.ReorderRules.
Import ListNotations.

(* T1: for every glyph type, record type, glyph-id function, coverage and parallel array
   of the same length: the result is a permutation, sorted by glyph id, and the array
   stays paired with its glyphs *)
Theorem C11_sort_by_gid_spec :
  forall (G E : Type) (gid : G -> Z) (glyphs : list G) (par : option (list E)),
  (match par with Some p => length p = length glyphs | None => True end) ->
  let '(glyphs', par') := sort_by_gid G E gid glyphs par in
  Permutation glyphs' glyphs /\
  StronglySorted (fun a b => (gid a <= gid b)%Z) glyphs' /\
  match par, par' with
  | Some p, Some p' =>
      length p' = length glyphs' /\ Permutation (combine glyphs' p') (combine glyphs p)
  | None, None => True
  | _, _ => False
  end.
Proof. exact sort_by_gid_spec. Qed.
Print Assumptions C11_sort_by_gid_spec.

Theorem C11_sort_by_gid_meaning :
  forall (G E : Type) (gid : G -> Z) (glyphs : list G) (p : list E),
  length p = length glyphs ->
  match sort_by_gid G E gid glyphs (Some p) with
  | (glyphs', Some p') => forall g e, In (g, e) (combine glyphs' p') <-> In (g, e) (combine glyphs p)
  | _ => False
  end.
Proof. exact sort_by_gid_meaning. Qed.
Print Assumptions C11_sort_by_gid_meaning.

(* coverage strictly increasing in glyph id (distinct glyphs of one font) *)
Theorem C11_sort_by_gid_strict :
  forall (G E : Type) (gid : G -> Z) (glyphs : list G) (par : option (list E)),
  (match par with Some p => length p = length glyphs | None => True end) ->
  NoDup (map gid glyphs) ->
  StronglySorted (fun a b => (gid a < gid b)%Z) (fst (sort_by_gid G E gid glyphs par)).
Proof. exact sort_by_gid_strict. Qed.
Print Assumptions C11_sort_by_gid_strict.

Theorem C11_reorder_list_spec :
  forall (G E : Type) (gid : G -> Z) (keyglyph : E -> G) (l : list E),
  Permutation (reorder_list G E gid keyglyph l) l /\
  StronglySorted (fun a b => (gid (keyglyph a) <= gid (keyglyph b))%Z) (reorder_list G E gid keyglyph l).
Proof. exact reorder_list_spec. Qed.
Print Assumptions C11_reorder_list_spec.

(* G1: the live rule table covers every coverage field of every GSUB/GPOS/GDEF subtable
   type/format in the schema with exactly its parallel array, re-sorts every gid-ordered
   inner list, and names nothing else for those types *)
Theorem C11_rules_complete : rules_complete reorder_rules ot_schema = true.
Proof. exact (eq_refl true). Qed.
Print Assumptions C11_rules_complete.
