(* C14 -- Bitmap glyphs carry the right image at the right place. *)
From Coq Require Import List ZArith QArith Qminmax Qabs Bool.
From Verif Require Import Model.Fixed Model.Bitmap Proofs.Bitmap_facts.
Import ListNotations.
Local Open Scope Q_scope.

(* T1: ppem = round(upem * bitmap height / em height) *)
Theorem C14_ppem_spec : forall c h p, ppem c h = Some p ->
  em c <> 0%Z /\ Qabs (zq p - zq (b_upem c * h) / zq (em c)) <= 1#2.
Proof. exact ppem_spec. Qed.
Print Assumptions C14_ppem_spec.

(* T2 vertical: bitmap centre within 7/4 px of the scaled em-box centre (3/4 without the
   int8 nudge); line height within half a pixel of the scaled em height *)
Theorem C14_vertical_centre : forall xref c w h p m,
  metrics_create_gen xref c w h p = Some m -> (0 < b_upem c)%Z ->
  let k := zq p / zq (b_upem c) in
  Qabs ((zq (m_y_offset m) - zq (b_resolution c) / 2)
        - (zq (b_ascender c) * k + zq (b_descender c) * k) / 2) <= (7#4) /\
  Qabs (zq (m_line_height m) - zq (em c) * k) <= 1#2.
Proof. exact vertical_centre. Qed.
Print Assumptions C14_vertical_centre.

Theorem C14_vertical_edges : forall xref c w h p m,
  metrics_create_gen xref c w h p = Some m -> (0 < b_upem c)%Z ->
  let k := zq p / zq (b_upem c) in
  let d := zq (b_resolution c) - zq (em c) * k in
  Qabs (zq (m_y_offset m) - zq (b_ascender c) * k - d / 2) <= (7#4) /\
  Qabs ((zq (m_y_offset m) - zq (b_resolution c)) - zq (b_descender c) * k + d / 2) <= (7#4).
Proof. exact vertical_edges. Qed.
Print Assumptions C14_vertical_edges.

(* T2 horizontal (code after the fix: reference = image width) *)
Theorem C14_horizontal_centre : forall c w h p m wpx,
  metrics_create_gen w c w h p = Some m -> width_in_pixels c w h = Some wpx -> (w <= wpx)%Z ->
  Qabs ((zq (m_x_offset m) + zq w / 2) - zq wpx / 2) <= 3#2.
Proof. exact horizontal_centre. Qed.
Print Assumptions C14_horizontal_centre.

(* ... and the statement is false for the original reference (bitmap_resolution): F8 *)
Theorem C14_horizontal_centre_resolution_refuted :
  exists c w h p m wpx,
    metrics_create_gen (b_resolution c) c w h p = Some m /\ width_in_pixels c w h = Some wpx /\
    (w <= wpx)%Z /\ ~ (Qabs ((zq (m_x_offset m) + zq w / 2) - zq wpx / 2) <= 3#2).
Proof. exact horizontal_centre_resolution_refuted. Qed.
Print Assumptions C14_horizontal_centre_resolution_refuted.

Theorem C14_width_in_pixels_spec : forall c w h wpx, width_in_pixels c w h = Some wpx ->
  let wf := Qmax (zq (b_width c)) (zq (w * em c) / zq h) in
  0 < wf /\ Qabs (zq wpx - wf * zq h / zq (em c)) <= 1#2.
Proof. exact width_in_pixels_spec. Qed.
Print Assumptions C14_width_in_pixels_spec.

(* T3: whatever is accepted is representable *)
Theorem C14_create_in_range : forall xref c w h p m, metrics_create_gen xref c w h p = Some m ->
  (-128 <= m_y_offset m <= 127)%Z /\ (0 <= b_resolution c <= 255)%Z.
Proof. exact create_in_range. Qed.
Print Assumptions C14_create_in_range.

Theorem C14_nudge_spec : forall lo hi v, (lo <= hi)%Z ->
  let r := nudge lo hi v in
  (Z.abs (r - v) <= 1)%Z /\ ((lo - 1 <= v <= hi + 1)%Z <-> (lo <= r <= hi)%Z) /\
  ((lo <= v <= hi)%Z -> r = v).
Proof. exact nudge_spec. Qed.
Print Assumptions C14_nudge_spec.

(* T4: strikes index maximal runs of consecutive gids; every glyph in exactly one run *)
Theorem C14_cbdt_runs_spec : forall gids,
  concat (cbdt_runs gids) = gids /\ Forall is_run (cbdt_runs gids).
Proof. exact cbdt_runs_spec. Qed.
Print Assumptions C14_cbdt_runs_spec.
Theorem C14_cbdt_runs_maximal : forall gids, runs_maximal (cbdt_runs gids).
Proof. exact cbdt_runs_maximal. Qed.
Print Assumptions C14_cbdt_runs_maximal.

Theorem C14_cbdt_offsets_spec : forall lens off,
  length (cbdt_offsets off lens) = length lens /\
  contiguous off (cbdt_offsets off lens) /\
  Forall2 (fun ab n => (snd ab - fst ab = 9 + n)%Z) (cbdt_offsets off lens) lens.
Proof. exact cbdt_offsets_spec. Qed.
Print Assumptions C14_cbdt_offsets_spec.

Example C14_example :
  metrics_create_gen 128 (BConfig 1024 950 (-250) 0 128) 128 128 109
  = Some (BMetrics 0 101 128 101) /\ ppem (BConfig 1024 950 (-250) 0 128) 128 = Some 109%Z.
Proof. split; exact (eq_refl _). Qed.
Print Assumptions C14_example.
