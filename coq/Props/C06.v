(* C06 -- Shape and gradient reuse never changes what is painted. *)
From Coq Require Import List ZArith Bool String Field.
From Verif Require Import Model.Field Model.Affine Model.Color Model.Paint Model.Reuse
  Proofs.Affine_facts Proofs.Reuse_facts.
Import ListNotations.

(* T1: tolerance -1 => no path is ever reused, whatever the history of the cache *)
Theorem C06_reuse_off_is_identity :
  forall (O : fops) (K : consts) (normalize : Z -> Z) (affine_between : Z -> Z -> option (aff O))
         (c : cache) (path : Z),
    disabled c = true -> try_reuse K normalize affine_between c path = None.
Proof. exact (fun O => @reuse_off_is_identity O). Qed.
Print Assumptions C06_reuse_off_is_identity.

(* T4: a reuse answer always names a glyph that was added, with the same normal form, the
   affine the recogniser produced for that donor, and that affine fits Fixed 16.16 *)
Theorem C06_try_reuse_sound :
  forall (O : fops) (K : consts) (normalize : Z -> Z) (affine_between : Z -> Z -> option (aff O))
         (added : list (string * Z)) (c : cache) (path : Z) (g : string) (a : aff O),
    cache_inv normalize added c -> try_reuse K normalize affine_between c path = Some (g, a) ->
    disabled c = false /\
    exists gp, In (g, gp) added /\ normalize gp = normalize path /\
               affine_between gp path = Some a /\ fixed_safe_aff K a = true.
Proof. exact (fun O => @try_reuse_sound O). Qed.
Print Assumptions C06_try_reuse_sound.

Theorem C06_cache_inv_reachable :
  forall (normalize : Z -> Z) dis,
    cache_inv normalize [] (empty_cache dis) /\
    forall added (c : cache) n p,
      cache_inv normalize added c -> cache_inv normalize ((n, p) :: added) (add_glyph normalize c n p).
Proof. exact (fun normalize dis => conj (cache_inv_empty normalize dis) (cache_inv_add normalize)). Qed.
Print Assumptions C06_cache_inv_reachable.

(* T2: the counter-transform of a gradient on a reused shape cancels the reuse transform *)
Theorem C06_reuse_counter_transform :
  forall (O : fops),
    field_theory (f0 O) (f1 O) (fadd O) (fmul O) (fsub O) (fopp O) (fdiv O) (finv O) eq ->
    feqb_ok O ->
    forall (R C : aff O) (p : pt O),
      adet R <> f0 O ->
      compose_ltr [compose_ltr [C; ainverse R]; R] = C /\
      map_point R (map_point (compose_ltr [C; ainverse R]) p) = map_point C p.
Proof.
  exact (fun O Fth Eqb R C p H => conj (@reuse_counter_transform O Fth Eqb R C H) (@reuse_counter_transform_point O Fth Eqb R C p H)).
Qed.
Print Assumptions C06_reuse_counter_transform.
