(* C05 -- A COLRv1 clip box never cuts painted content. *)
From Coq Require Import List ZArith QArith Bool.
From Verif Require Import Model.Fixed Model.Bounds Proofs.Bounds_facts.
Import ListNotations.
Local Open Scope Q_scope.

(* T1: outward quantisation to multiples of the step, never further than one step *)
Theorem C05_quantize_spec : forall x0 y0 x1 y1 f, (1 <= f)%Z ->
  exists a b c d, quantize_rect (x0, y0, x1, y1) f = Some (a, b, c, d) /\
    (a <= x0 /\ x0 - a < f /\ a mod f = 0)%Z /\ (b <= y0 /\ y0 - b < f /\ b mod f = 0)%Z /\
    (x1 <= c /\ c - x1 < f /\ c mod f = 0)%Z /\ (y1 <= d /\ d - y1 < f /\ d mod f = 0)%Z.
Proof. exact quantize_spec. Qed.
Print Assumptions C05_quantize_spec.

(* T2: for every list of PaintGlyph contexts (their control points already mapped by the
   context transform), every point is inside the emitted box widened by the half unit
   otRound can move an edge inwards; with a step > 1 all edges are multiples of it; the
   `assert factor >= 1` is never reached. *)
Theorem C05_bounds_contain : forall gl f pts p,
  In pts gl -> In p pts ->
  exists a b c d, bounds gl f = Box (a, b, c, d) /\
    inject_Z a - (1#2) <= fst p /\ fst p < inject_Z c + (1#2) /\
    inject_Z b - (1#2) <= snd p /\ snd p < inject_Z d + (1#2) /\
    ((1 < f)%Z -> (a mod f = 0 /\ b mod f = 0 /\ c mod f = 0 /\ d mod f = 0)%Z).
Proof. exact bounds_contain. Qed.
Print Assumptions C05_bounds_contain.

(* T4: a glyph that paints nothing has no clip box, and only such a glyph *)
Theorem C05_no_paint_no_box : forall gl f,
  bounds gl f = NoBox <-> Forall (fun pts => pts = []) gl.
Proof. exact no_paint_no_box. Qed.
Print Assumptions C05_no_paint_no_box.

Example C05_example :
  bounds [[(723 # 10, -(2184 # 10)); (12013 # 10, 9191 # 10)]; []] 10 = Box (70, -220, 1210, 920)%Z.
Proof. exact (eq_refl _). Qed.
Print Assumptions C05_example.
