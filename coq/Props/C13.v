(* C13 -- COLR-to-SVG conversion preserves the picture for supported paint graphs. *)
From Coq Require Import List ZArith Bool Field.
From Verif Require Import Model.Field Model.Affine Model.ViewBox Model.ColrToSvg
  Proofs.Affine_facts Proofs.ViewBox_facts Proofs.ColrToSvg_facts.
Import ListNotations.

(* T1: font space -> viewBox undoes the placement of C01 *)
Theorem C13_font_to_vbox_inverts_place :
  forall (O : fops),
    field_theory (f0 O) (f1 O) (fadd O) (fmul O) (fsub O) (fopp O) (fdiv O) (finv O) eq -> feqb_ok O ->
    forall (vb : rect O) (asc desc width : F O) (p : pt O),
      rh vb <> f0 O -> fsub O asc desc <> f0 O ->
      map_point (font_to_vbox vb asc desc width) (map_point (map_viewbox_to_font_space vb asc desc width aid) p) = p.
Proof. exact (fun O Fth Eqb => @font_to_vbox_inverts_place O Fth Eqb). Qed.
Print Assumptions C13_font_to_vbox_inverts_place.

(* T2: <path transform = V A V^-1> over an outline drawn through V shows V(A(outline)) *)
Theorem C13_path_transform_sem :
  forall (O : fops),
    field_theory (f0 O) (f1 O) (fadd O) (fmul O) (fsub O) (fopp O) (fdiv O) (finv O) eq -> feqb_ok O ->
    forall (V A : aff O) (x : pt O),
      adet V <> f0 O -> map_point (svg_transform_attr V A) (map_point V x) = map_point V (map_point A x).
Proof. exact (fun O Fth Eqb => @path_transform_sem O Fth Eqb). Qed.
Print Assumptions C13_path_transform_sem.

(* T3: the SVG linear gradient through P0 and the projection point P3 has the colour function of
   the COLR gradient (P0, P1, P2), for every non-degenerate P2 (rotated ones included) *)
Theorem C13_linear_p3_sem :
  forall (O : fops),
    field_theory (f0 O) (f1 O) (fadd O) (fmul O) (fsub O) (fopp O) (fdiv O) (finv O) eq ->
    forall (p0 p1 p2 x : pt O),
      let n := perp (vsub p2 p0) in
      dot n n <> f0 O -> dot (vsub p1 p0) n <> f0 O ->
      svg_lin_t p0 (linear_p3 p0 p1 p2) x = lin_t p0 p1 p2 x.
Proof. exact (fun O Fth => @linear_p3_sem O Fth). Qed.
Print Assumptions C13_linear_p3_sem.
