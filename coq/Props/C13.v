(* C13 -- COLR-to-SVG conversion preserves the picture for supported paint graphs. *)
From Coq Require Import List ZArith Bool Field.
From Coq Require Import String.
From Verif Require Import Model.Field Model.Affine Model.Color Model.Paint Model.ViewBox Model.ColrToSvg
  Model.SvgTree Proofs.Affine_facts Proofs.ViewBox_facts Proofs.ColrToSvg_facts Proofs.SvgTree_facts
  Proofs.SvgTree_examples.
Import ListNotations.

(* T1: font space -> viewBox undoes the placement of C01 *)
Theorem C13_font_to_vbox_inverts_place :
  forall (O : fops),
    field_theory (f0 O) (f1 O) (fadd O) (fmul O) (fsub O) (fopp O) (fdiv O) (finv O) eq -> feqb_ok O ->
    forall (vb : rect O) (asc desc width : F O) (p : pt O),
      rh vb <> f0 O -> fsub O asc desc <> f0 O ->
      map_point (font_to_vbox vb asc desc width) (map_point (map_viewbox_to_font_space vb asc desc width aid) p) = p.
Proof. exact (fun O Fth Eqb => @font_to_vbox_inverts_place O Fth Eqb). Qed.
Print Assumptions C13_font_to_vbox_inverts_place.

(* T2: <path transform = V A V^-1> over an outline drawn through V shows V(A(outline)) *)
Theorem C13_path_transform_sem :
  forall (O : fops),
    field_theory (f0 O) (f1 O) (fadd O) (fmul O) (fsub O) (fopp O) (fdiv O) (finv O) eq -> feqb_ok O ->
    forall (V A : aff O) (x : pt O),
      adet V <> f0 O -> map_point (svg_transform_attr V A) (map_point V x) = map_point V (map_point A x).
Proof. exact (fun O Fth Eqb => @path_transform_sem O Fth Eqb). Qed.
Print Assumptions C13_path_transform_sem.

(* T3: the SVG linear gradient through P0 and the projection point P3 has the colour function of
   the COLR gradient (P0, P1, P2), for every non-degenerate P2 (rotated ones included) *)
Theorem C13_linear_p3_sem :
  forall (O : fops),
    field_theory (f0 O) (f1 O) (fadd O) (fmul O) (fsub O) (fopp O) (fdiv O) (finv O) eq ->
    forall (p0 p1 p2 x : pt O),
      let n := perp (vsub p2 p0) in
      dot n n <> f0 O -> dot (vsub p1 p0) n <> f0 O ->
      svg_lin_t p0 (linear_p3 p0 p1 p2) x = lin_t p0 p1 p2 x.
Proof. exact (fun O Fth => @linear_p3_sem O Fth). Qed.
Print Assumptions C13_linear_p3_sem.

(* T4: the traversal.  For every paint graph the converter supports (any nesting of layers,
   transform paints of all ten kinds above and below a PaintGlyph, PaintColrGlyph through the base
   glyph records, group opacity; any depth), in any field, under any invertible font-to-viewBox
   map V: the layers the written SVG tree paints are exactly the layers the COLR graph paints,
   seen through V - same glyphs in the same order, each outline placed by V o (COLR placement),
   each fill's geometry placed by V o (COLR fill placement), under the same group opacities.
   Stated with the invariant that makes it inductive (C = user space of the enclosing <g>,
   t = transform accumulated since the last attribute was written); the whole-glyph case is T4'. *)
Theorem C13_traversal_refines :
  forall (O : fops),
    field_theory (f0 O) (f1 O) (fadd O) (fmul O) (fsub O) (fopp O) (fdiv O) (finv O) eq -> feqb_ok O ->
    forall (V : aff O) (env : string -> option (paint O)),
      adet V <> f0 O ->
      forall fuel (p : paint O) (t acc C : aff O) (ops : list (F O)) (els : list (svgel O)),
        matmul V acc = matmul (matmul C V) t ->
        to_svg V env fuel p t = Some els ->
        exists ls, colr_sem env fuel p acc ops = Some ls /\ svg_sem_list C ops els = map (through V) ls.
Proof. exact (fun O Fth Eqb V env HV => @to_svg_refines O Fth Eqb V env HV). Qed.
Print Assumptions C13_traversal_refines.

Theorem C13_glyph_to_svg_refines :
  forall (O : fops),
    field_theory (f0 O) (f1 O) (fadd O) (fmul O) (fsub O) (fopp O) (fdiv O) (finv O) eq -> feqb_ok O ->
    forall (V : aff O) (env : string -> option (paint O)),
      adet V <> f0 O ->
      forall fuel (p : paint O) (els : list (svgel O)),
        to_svg V env fuel p aid = Some els ->
        exists ls, colr_sem env fuel p aid [] = Some ls /\ svg_sem_list aid [] els = map (through V) ls.
Proof. exact (fun O Fth Eqb V env HV => @glyph_to_svg_refines O Fth Eqb V env HV). Qed.
Print Assumptions C13_glyph_to_svg_refines.

(* the answer does not depend on the fuel chosen, once there is one *)
Theorem C13_to_svg_fuel_mono :
  forall (O : fops) (V : aff O) (env : string -> option (paint O)) fuel (p : paint O) (t : aff O) els,
    to_svg V env fuel p t = Some els -> to_svg V env (S fuel) p t = Some els.
Proof. exact (fun O V env => @to_svg_fuel_mono O V env). Qed.
Print Assumptions C13_to_svg_fuel_mono.

(* T5: what "fill geometry placed by fm" means for a linear gradient as it is written (mapped
   points, then P3): same colour parameter at the image of every point *)
Theorem C13_linear_fill_sem :
  forall (O : fops),
    field_theory (f0 O) (f1 O) (fadd O) (fmul O) (fsub O) (fopp O) (fdiv O) (finv O) eq ->
    forall (fm : aff O) (p0 p1 p2 z : pt O),
      adet fm <> f0 O ->
      det2 (fsub O (px p1) (px p0)) (fsub O (py p1) (py p0)) (fsub O (px p2) (px p0)) (fsub O (py p2) (py p0)) <> f0 O ->
      let q0 := map_point fm p0 in let q1 := map_point fm p1 in let q2 := map_point fm p2 in
      let n := perp (vsub q2 q0) in
      dot n n <> f0 O -> dot (vsub q1 q0) n <> f0 O ->
      svg_lin_t q0 (linear_p3 q0 q1 q2) (map_point fm z) = lin_t p0 p1 p2 z.
Proof. exact (fun O Fth => @linear_fill_sem O Fth). Qed.
Print Assumptions C13_linear_fill_sem.

(* the hypotheses are met by a graph with every supported construct (evaluated) *)
Theorem C13_traversal_example : ex_layers = Some 4%nat.
Proof. exact traversal_example. Qed.
Print Assumptions C13_traversal_example.
