(* C16 -- Specialised transform paints denote exactly the affine they replace.
   Only statements closed by [exact]; proofs live in Proofs/. *)
From Coq Require Import List ZArith Bool Field.
From Verif Require Import Model.Field Model.Affine Model.Color Model.Paint Model.Fixed
  Generated.Consts Proofs.Affine_facts Proofs.Paint_facts.

(* G: the constants regenerated from src/nanoemoji/fixed.py are the OpenType ranges *)
Theorem C16_consts_match_spec : consts_ok K = true.
Proof. exact (eq_refl true). Qed.
Print Assumptions C16_consts_match_spec.

(* T1: for every field, every affine and every target paint *)
Theorem C16_transformed_sem :
  forall (O : fops),
    field_theory (f0 O) (f1 O) (fadd O) (fmul O) (fsub O) (fopp O) (fdiv O) (finv O) eq ->
    feqb_ok O ->
    forall (t : aff O) (target : paint O),
      (t = aid /\ transformed K t target = target) \/
      (t <> aid /\ unwrap (transformed K t target) = Some target /\
       (if is_uniform_variant (transformed K t target)
        then aeq K (aa t) (ad t) = true /\
             gettransform (transformed K t target) = uniform_image t
        else gettransform (transformed K t target) = t)).
Proof. exact (fun O Fth Eqb => @transformed_sem O Fth Eqb K). Qed.
Print Assumptions C16_transformed_sem.

(* T2: narrower encodings are only chosen when every field passed its range predicate *)
Theorem C16_transformed_encodable :
  forall (O : fops),
    field_theory (f0 O) (f1 O) (fadd O) (fmul O) (fsub O) (fopp O) (fdiv O) (finv O) eq ->
    feqb_ok O ->
    forall (t : aff O) (target : paint O),
      t <> aid -> fields_in_range K (transformed K t target) = true.
Proof. exact (fun O _ Eqb => @transformed_encodable O Eqb K). Qed.
Print Assumptions C16_transformed_encodable.
