(* C08 -- The build is a function of its inputs: output bytes are deterministic. *)
From Coq Require Import List ZArith Bool Permutation.
From Verif Require Import Model.Build Proofs.Build_facts Proofs.Dest_facts.
Import ListNotations.

(* T1: the source list (set union, abspath, sorted) depends only on the *set* of arguments:
   permuting, repeating or re-globbing them changes nothing *)
Theorem C08_sources_set_invariant :
  forall a b : list Z, (forall x, In x a <-> In x b) -> sources a = sources b.
Proof. exact sources_set_invariant. Qed.
Print Assumptions C08_sources_set_invariant.
Theorem C08_sources_perm_invariant : forall a b : list Z, Permutation a b -> sources a = sources b.
Proof. exact sources_perm_invariant. Qed.
Print Assumptions C08_sources_perm_invariant.

(* T4: for every hermetic tool semantics [exec], every well-formed graph (unique outputs,
   acyclic) and every schedule that runs each edge once after the producers of its inputs --
   whatever the degree of parallelism -- every file ends with the same content *)
Theorem C08_schedule_independent :
  forall (exec : Z -> list Z -> Z) (g sched : list edge) (src : fs),
    wf_graph g = true -> Permutation sched g -> valid_schedule g sched = true ->
    forall x, read (run_schedule exec src sched) x = read (run_schedule exec src g) x.
Proof. exact schedule_independent. Qed.
Print Assumptions C08_schedule_independent.

(* the clean-build value of every output is a fixed point of its edge: it is the tool applied
   to the final values of its declared inputs *)
Theorem C08_value_fixed_point :
  forall (exec : Z -> list Z -> Z) (g : list edge) (src : fs),
    wf_graph g = true ->
    let val := read (run_schedule exec src g) in
    (forall e, In e g -> val (e_out e) = exec (e_cmd e) (map val (e_ins e))) /\
    (forall x, ~ In x (map e_out g) -> val x = read src x).
Proof. exact (fun exec g src H => value_fixed_point exec g [] src H). Qed.
Print Assumptions C08_value_fixed_point.

(* T3: _dest_for_src -- within one run two different sources never share an intermediate
   path, whatever the order in which they are first seen; the file name is kept *)
Theorem C08_dests_injective :
  forall (srcs : list (Z * Z)) (p1 p2 : Z) (d : nat * Z),
    In (p1, d) (dests [] srcs) -> In (p2, d) (dests [] srcs) -> p1 = p2.
Proof. exact dests_injective. Qed.
Print Assumptions C08_dests_injective.
Theorem C08_dests_keep_name :
  forall (srcs : list (Z * Z)) (s : seen) (p : Z) (d : nat * Z),
    In (p, d) (dests s srcs) -> exists nm, In (p, nm) srcs /\ snd d = nm.
Proof. exact dests_keep_name. Qed.
Print Assumptions C08_dests_keep_name.
(* a source that already has a slot gets the same slot on every later lookup *)
Theorem C08_dest_stable :
  forall (s : seen) (path nm : Z) (n0 : nat), bounded s -> canonical s ->
    lookup_seen n0 nm s = Some path -> fst (dest_for_src s path nm) = (n0, nm).
Proof. exact dest_stable. Qed.
Print Assumptions C08_dest_stable.
