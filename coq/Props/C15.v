(* C15 -- The palette honours explicit indices and resolves every colour. *)
From Coq Require Import List Arith ZArith QArith Qcanon Bool.
From Verif Require Import Model.Field Model.Color Model.Palette Proofs.Palette_facts Proofs.PaletteSet_facts
  Proofs.Color_facts Corr.Common Corr.C15.
Import ListNotations.

(* T1, for every colour type with a sound equality test, every index function, every
   rgba order and every finite list of colours (the set is [the_set colors]):
   - two colours sharing an index => the error outcome;
   - otherwise the real deque loop (never an IndexError, final assertion holds) returns
     exactly [fill]: indexed colours at their index, unindexed ones in ascending order in
     the lowest free slots, black in the remaining gaps; length max(|set|, maxidx+1) > 0;
     every colour of the set is in the palette. *)
Theorem C15_palette_spec :
  forall (C : Type) (ceqb : C -> C -> bool) (cidx : C -> option nat) (cltb : C -> C -> bool) (black : C),
    forall colors : list C,
      let all := the_set C ceqb black colors in
      let slots := Nat.max (length all) (max_idx_plus1 C cidx all) in
      (has_conflict C cidx all = true ->
         uniq_sort_cpal_colors C ceqb cidx cltb black colors = ErrConflict C) /\
      (has_conflict C cidx all = false ->
         let pal := fill C cidx black slots 0 (indexed_sorted C cidx all) (unindexed_sorted C cidx cltb all) in
         uniq_sort_cpal_colors C ceqb cidx cltb black colors = Palette C pal /\
         length pal = slots /\ pal <> [] /\
         (forall c, In c all -> In c pal) /\
         (forall c n, In c all -> cidx c = Some n -> nth_error pal n = Some c)).
Proof. exact palette_spec. Qed.
Print Assumptions C15_palette_spec.

Theorem C15_palette_only :
  forall (C : Type) (ceqb : C -> C -> bool) (cidx : C -> option nat) (cltb : C -> C -> bool) (black : C),
    (forall a b, ceqb a b = true <-> a = b) ->
    forall colors pal,
      uniq_sort_cpal_colors C ceqb cidx cltb black colors = Palette C pal ->
      forall c, In c pal -> In c colors \/ c = black.
Proof. exact palette_only. Qed.
Print Assumptions C15_palette_only.

(* T2: "a deterministic order": the result is a function of the *set* of colours -- permuting or
   repeating the colours changes nothing -- for every colour type whose rgba comparison is a
   strict weak order that separates different unindexed colours *)
Theorem C15_palette_set_invariant :
  forall (C : Type) (ceqb : C -> C -> bool) (cidx : C -> option nat) (cltb : C -> C -> bool) (black : C),
    (forall a b, ceqb a b = true <-> a = b) ->
    (forall a, cltb a a = false) ->
    (forall a b c, cltb a b = true -> cltb b c = true -> cltb a c = true) ->
    (forall a b c, cltb a b = false -> cltb b c = false -> cltb a c = false) ->
    (forall a b, a <> b -> cidx a = None -> cidx b = None -> cltb a b = true \/ cltb b a = true) ->
    forall l1 l2 : list C, (forall c, In c l1 <-> In c l2) ->
      uniq_sort_cpal_colors C ceqb cidx cltb black l1 = uniq_sort_cpal_colors C ceqb cidx cltb black l2.
Proof. exact palette_set_invariant. Qed.
Print Assumptions C15_palette_set_invariant.

(* the executable instance used by the correspondence check satisfies the hypothesis *)
Theorem C15_instance_eqb_ok : forall a b : qcolor, color_eqb a b = true <-> a = b.
Proof. exact (color_eqb_ok QcOps QcOps_eqb). Qed.
Print Assumptions C15_instance_eqb_ok.

(* non-vacuity: a mixed set (indices 3 and 0, two unindexed colours) *)
Example C15_example :
  pal_model [C5 9 9 9 (q 1 1) (Some 3%Z); C5 1 2 3 (q 1 1) None; C5 7 7 7 (q 1 2) (Some 0%Z);
             C5 1 2 2 (q 1 1) None; C5 1 2 3 (q 1 1) None]
  = Palette _ [C5 7 7 7 (q 1 2) (Some 0%Z); C5 1 2 2 (q 1 1) None; C5 1 2 3 (q 1 1) None;
               C5 9 9 9 (q 1 1) (Some 3%Z)].
Proof. exact (eq_refl _). Qed.
Print Assumptions C15_example.
