(* C02 -- OT-SVG glyph documents render the same picture as their sources. *)
From Coq Require Import List ZArith QArith Qcanon Bool Field Permutation.
From Verif Require Import Model.Field Model.Affine Model.ViewBox Model.OtSvg
  Proofs.Affine_facts Proofs.ViewBox_facts Proofs.OtSvg_facts Corr.Common.
Import ListNotations.

(* T1 (partial): the OT-SVG placement is the y-mirror of the font-space placement when the user
   transform commutes with the mirror (b = c = f = 0) *)
Theorem C02_otsvg_place_spec_partial :
  forall (O : fops),
    field_theory (f0 O) (f1 O) (fadd O) (fmul O) (fsub O) (fopp O) (fdiv O) (finv O) eq ->
    fadd O (f1 O) (f1 O) <> f0 O ->
    forall (vb : rect O) (asc desc width : F O) (U : aff O),
      rh vb <> f0 O -> ab U = f0 O -> ac U = f0 O -> af U = f0 O ->
      map_viewbox_to_otsvg_space vb asc desc width U =
      matmul mirror_y (map_viewbox_to_font_space vb asc desc width U).
Proof. exact (fun O Fth => @otsvg_place_spec_partial O Fth). Qed.
Print Assumptions C02_otsvg_place_spec_partial.

(* the law that does hold for every user transform: conjugate it by the mirror *)
Theorem C02_otsvg_place_conjugate :
  forall (O : fops),
    field_theory (f0 O) (f1 O) (fadd O) (fmul O) (fsub O) (fopp O) (fdiv O) (finv O) eq ->
    fadd O (f1 O) (f1 O) <> f0 O ->
    forall (vb : rect O) (asc desc width : F O) (U : aff O),
      rh vb <> f0 O ->
      map_viewbox_to_otsvg_space vb asc desc width (matmul mirror_y (matmul U mirror_y)) =
      matmul mirror_y (map_viewbox_to_font_space vb asc desc width U).
Proof. exact (fun O Fth => @otsvg_place_conjugate O Fth). Qed.
Print Assumptions C02_otsvg_place_conjugate.

(* ... and the unrestricted statement is false (finding F6): translate(0, 100), upem 1000 *)
Theorem C02_otsvg_user_transform_refuted :
  exists (vb : rect QcOps) (asc desc width : Qc) (U : aff QcOps),
    rh vb <> 0%Qc /\
    map_viewbox_to_otsvg_space vb asc desc width U <>
    matmul mirror_y (map_viewbox_to_font_space vb asc desc width U).
Proof.
  exists (@Rect QcOps (q 0 1) (q 0 1) (q 100 1) (q 100 1)), (q 1000 1), (q 0 1), (q 1000 1), (A6 (q 1 1) (q 0 1) (q 0 1) (q 1 1) (q 0 1) (q 100 1)).
  split; [vm_compute; discriminate|]. vm_compute. discriminate.
Qed.
Print Assumptions C02_otsvg_user_transform_refuted.

(* T3: <use x y transform> built from a reuse transform R places the target by exactly R *)
Theorem C02_use_element_sem :
  forall (O : fops),
    field_theory (f0 O) (f1 O) (fadd O) (fmul O) (fsub O) (fopp O) (fdiv O) (finv O) eq ->
    feqb_ok O -> forall R : aff O, use_effective (use_attrs R) = R.
Proof. exact (fun O Fth Eqb => @use_element_sem O Fth Eqb). Qed.
Print Assumptions C02_use_element_sem.

(* T6: the reshuffle is a permutation, each sharing group gets consecutive glyph ids in group
   order (so a document's [min gid, max gid] range is exactly its group), .notdef stays first *)
Theorem C02_ensure_order_perm :
  forall (G : Type) (geqb : G -> G -> bool), (forall a b, geqb a b = true <-> a = b) ->
  forall (old : list G) (groups : list (list G)),
    NoDup old -> NoDup (concat groups) -> (forall g, In g (concat groups) -> In g old) ->
    Permutation (ensure_order G geqb old groups) old.
Proof. exact ensure_order_perm. Qed.
Print Assumptions C02_ensure_order_perm.

Theorem C02_ensure_order_ranges :
  forall (G : Type) (geqb : G -> G -> bool) (old : list G) (groups : list (list G)) k grp,
    nth_error groups k = Some grp ->
    exists start, nth_error (ranges G geqb old groups) k = Some (start, length grp) /\
      forall i, (i < length grp)%nat -> nth_error (ensure_order G geqb old groups) (start + i)%nat = nth_error grp i.
Proof. exact ensure_order_ranges. Qed.
Print Assumptions C02_ensure_order_ranges.

Theorem C02_ensure_order_head :
  forall (G : Type) (geqb : G -> G -> bool), (forall a b, geqb a b = true <-> a = b) ->
  forall (old : list G) (groups : list (list G)) g0 rest,
    old = g0 :: rest -> ~ In g0 (concat groups) -> hd_error (ensure_order G geqb old groups) = Some g0.
Proof. exact ensure_order_head. Qed.
Print Assumptions C02_ensure_order_head.
