(* C19 -- Congruent copies of a shape are stored once. *)
From Coq Require Import List ZArith Bool String Field.
From Verif Require Import Model.Field Model.Affine Model.Color Model.Paint Model.Reuse
  Proofs.Affine_facts Proofs.Reuse_facts Proofs.Normalize_facts.
Import ListNotations.

(* T1: the exact normal form (first significant vector to (1,0), first significant y to 1) of a
   path's relative vectors is unchanged by any rotation (cos, sin) = (c, s), c^2 + s^2 = 1 ... *)
Theorem C19_normalize_rotation_invariant :
  forall (O : fops),
    field_theory (f0 O) (f1 O) (fadd O) (fmul O) (fsub O) (fopp O) (fdiv O) (finv O) eq ->
    forall (c s : F O) (ws : list (pt O)) (i j : nat),
      fadd O (fmul O c c) (fmul O s s) = f1 O -> nrm2 (nth i ws zero) <> f0 O ->
      normalize_exact (map (rot c s) ws) i j = normalize_exact ws i j.
Proof. exact (fun O Fth => @normalize_rotation_invariant O Fth). Qed.
Print Assumptions C19_normalize_rotation_invariant.

(* ... and by any reflection; translations do not change relative vectors at all *)
Theorem C19_normalize_reflection_invariant :
  forall (O : fops),
    field_theory (f0 O) (f1 O) (fadd O) (fmul O) (fsub O) (fopp O) (fdiv O) (finv O) eq ->
    forall (c s : F O) (ws : list (pt O)) (i j : nat),
      fadd O (fmul O c c) (fmul O s s) = f1 O -> nrm2 (nth i ws zero) <> f0 O ->
      py (nth j (map (Mv (nth i ws zero)) ws) zero) <> f0 O ->
      normalize_exact (map (refl c s) ws) i j = normalize_exact ws i j.
Proof. exact (fun O Fth => @normalize_reflection_invariant O Fth). Qed.
Print Assumptions C19_normalize_reflection_invariant.

(* the thresholds that pick i and j look at norms and |y|, which isometries preserve *)
Theorem C19_norm_preserved :
  forall (O : fops),
    field_theory (f0 O) (f1 O) (fadd O) (fmul O) (fsub O) (fopp O) (fdiv O) (finv O) eq ->
    forall (c s : F O) (v : pt O),
      fadd O (fmul O c c) (fmul O s s) = f1 O ->
      nrm2 (rot c s v) = nrm2 v /\ nrm2 (refl c s v) = nrm2 v.
Proof. exact (fun O Fth c s v H => conj (@nrm2_rot O Fth c s v H) (@nrm2_refl O Fth c s v H)). Qed.
Print Assumptions C19_norm_preserved.

(* T2: reuse is taken whenever a donor with the same normal form was added and the recogniser
   returns a representable affine; only the documented -1 switches it off (C06_reuse_off) *)
Theorem C19_reuse_taken :
  forall (O : fops) (K : consts) (normalize : Z -> Z) (affine_between : Z -> Z -> option (aff O))
         (c : cache) (path : Z) (g : string) (gp : Z) (a : aff O),
    disabled c = false -> lookup (normalize path) (reusable c) = Some (g, gp) ->
    affine_between gp path = Some a -> fixed_safe_aff K a = true ->
    try_reuse K normalize affine_between c path = Some (g, a).
Proof. exact (fun O => @reuse_taken O). Qed.
Print Assumptions C19_reuse_taken.
