(* C07 -- Every emitted font is structurally valid for its consumers (the parts nanoemoji
   constructs itself; ufo2ft/fontTools-built tables are checked on every generated font by the
   executable predicates of Model/Validity.v). *)
From Coq Require Import List Arith ZArith Bool.
From Verif Require Import Model.Validity Model.OtSvg Model.Bitmap Proofs.Validity_facts Proofs.Bitmap_facts.
Import ListNotations.

(* T1: the glyph reshuffle yields SVG document records sorted by start glyph, pairwise disjoint
   and inside the glyph set, for every old order and every family of non-empty groups *)
Theorem C07_reshuffle_doclist_valid :
  forall (G : Type) (geqb : G -> G -> bool) (old : list G) (groups : list (list G)),
    Forall (fun g => g <> []) groups ->
    length (ensure_order G geqb old groups) = length old ->
    valid_svg_doclist (to_records (ranges G geqb old groups)) (length old) = true.
Proof. exact reshuffle_doclist_valid. Qed.
Print Assumptions C07_reshuffle_doclist_valid.

(* T3: CBDT strikes index maximal runs of consecutive glyph ids, every glyph in exactly one *)
Theorem C07_cbdt_runs_spec : forall gids : list Z,
  concat (cbdt_runs gids) = gids /\ Forall is_run (cbdt_runs gids).
Proof. exact cbdt_runs_spec. Qed.
Print Assumptions C07_cbdt_runs_spec.

Theorem C07_cbdt_offsets_spec : forall (lens : list Z) (off : Z),
  length (cbdt_offsets off lens) = length lens /\
  contiguous off (cbdt_offsets off lens) /\
  Forall2 (fun ab n => (snd ab - fst ab = 9 + n)%Z) (cbdt_offsets off lens) lens.
Proof. exact cbdt_offsets_spec. Qed.
Print Assumptions C07_cbdt_offsets_spec.

(* what the CBLC predicate evaluated on every emitted bitmap font means: no glyph id is indexed twice (within a strike
   or by two strikes of the font), and every indexed id lies inside its strike's start..end and inside the glyph set *)
Theorem C07_valid_cblc_no_glyph_twice :
  forall (strikes : list (nat * nat * list nat)) (n : nat),
    valid_cblc strikes n = true ->
    NoDup (concat (map snd strikes)) /\
    forall st x, In st strikes -> In x (snd st) -> fst (fst st) <= x <= snd (fst st) /\ x < n.
Proof. exact valid_cblc_no_glyph_twice. Qed.
Print Assumptions C07_valid_cblc_no_glyph_twice.
