(* C20 -- Every configuration option reaches the font it configures (the resolution rule and the
   format table; the rest of the path is exercised end to end through the real CLI). *)
From Coq Require Import List String Bool.
From Verif Require Import Model.Config Proofs.Config_facts Generated.ColorFormats Generated.ConfigPaths.
Import ListNotations.

(* T1: flag > file > default, for every option type *)
Theorem C20_flag_precedence : forall (A : Type) (flag file : option A) (default v : A),
  (flag = Some v -> pop_flag flag file default = v) /\
  (flag = None -> file = Some v -> pop_flag flag file default = v) /\
  (flag = None -> file = None -> pop_flag flag file default = default).
Proof. exact flag_precedence. Qed.
Print Assumptions C20_flag_precedence.

(* G2: the live format table (13 formats, their input kinds, OT-SVG-ness, outline flavour)
   is exactly the documented one *)
Theorem C20_color_formats_match_spec : tables_agree color_formats format_spec = true.
Proof. exact (eq_refl true). Qed.
Print Assumptions C20_color_formats_match_spec.

(* G3: every documented option has a flag whose "unset" is distinguishable, is written to the
   file the build steps read, is taken by load through _pop_flag (whose behaviour is compared with the modelled rule T1 on every run, Corr.C20.pf_agree;
   whether its text is still the three lines the model was written after is recorded as pop_flag_is_the_modelled_rule, not required) and handed to
   FontConfig under its own name; no field is left out, nothing else is written.  A statement
   about config.py's current text (the rows are regenerated from it on every run). *)
Theorem C20_config_paths_complete :
  config_paths_ok config_rows true written_keys_that_are_no_field passed_keywords_that_are_no_field = true.
Proof. exact (eq_refl true). Qed.
Print Assumptions C20_config_paths_complete.
