(* C17 -- Ambiguous or unusable input stops the build instead of yielding a wrong glyph. *)
From Coq Require Import List Bool.
From Verif Require Import Model.Inputs Proofs.Inputs_facts.
Import ListNotations.

(* T2: after the fix, the inputs of one build are accepted exactly when their glyph names are
   pairwise distinct: an accepted build maps sources to glyphs injectively (nothing merged) *)
Theorem C17_inputs_accepted_iff_nodup :
  forall (G : Type) (geqb : G -> G -> bool), (forall a b, geqb a b = true <-> a = b) ->
  forall names : list G, inputs_accepted G geqb names = true <-> NoDup names.
Proof. exact inputs_accepted_iff_nodup. Qed.
Print Assumptions C17_inputs_accepted_iff_nodup.

(* masters: a configuration is accepted exactly when it has at least one master, unique source names per
   master, and the same set of source names in every master -- rejected for nothing but the listed defects *)
Theorem C17_masters_accepted_spec :
  forall (G : Type) (geqb : G -> G -> bool), (forall a b, geqb a b = true <-> a = b) ->
  forall ms : list (list G), masters_accepted G geqb ms = true <->
    (ms <> [] /\ Forall (@NoDup G) ms /\
     forall m1 m2, In m1 ms -> In m2 ms -> forall x, In x m1 <-> In x m2).
Proof. exact masters_accepted_iff. Qed.
Print Assumptions C17_masters_accepted_spec.
