(* C09 -- Re-running after any edit or interruption converges to the clean build.
   Only statements and `exact`; proofs live in Proofs/. *)
From Coq Require Import List ZArith Bool.
From Verif Require Import Model.Build Model.Ninja Proofs.Ninja_facts Proofs.Ninja_examples.
Import ListNotations.
Local Open Scope Z_scope.

(* T2: for every tool semantics, every marking of output paths, every history of edits,
   removals, renames and invocations with arbitrary failing / killed / not-started steps --
   provided renames are honest about time (rename_fresh) and truncating kills hit only steps
   whose logged result is already invalidated or absent (trunc_safe) -- one further invocation
   in which every step succeeds leaves every output equal to its tool applied to the final
   inputs *)
Theorem C09_converges :
  forall (exec : Z -> list Z -> Z) (garbage : Z) (isout : Z -> bool) (insof : Z -> Z -> list Z)
         (h : list op) (g : list edge),
  ok_history exec garbage isout insof init h -> wf_graph g = true ->
  (forall e, In e g -> edge_ok isout insof e) ->
  let s := fold_left (apply exec garbage) h init in
  snd (ninja_run exec garbage all_run s g) = true ->
  let s' := fst (ninja_run exec garbage all_run s g) in
  forall e, In e g -> content s' (e_out e) = exec (e_cmd e) (map (content s') (e_ins e)).
Proof. exact converges. Qed.
Print Assumptions C09_converges.

(* ... which is the font (and every intermediate) of a clean build of the final sources *)
Theorem C09_converges_to_clean_build :
  forall (exec : Z -> list Z -> Z) (garbage : Z) (isout : Z -> bool) (insof : Z -> Z -> list Z)
         (h : list op) (g : list edge),
  ok_history exec garbage isout insof init h -> wf_graph g = true ->
  (forall e, In e g -> edge_ok isout insof e) ->
  let s := fold_left (apply exec garbage) h init in
  snd (ninja_run exec garbage all_run s g) = true ->
  let s' := fst (ninja_run exec garbage all_run s g) in
  let src : fs := fun p => if existsb (Z.eqb p) (map e_out g) then None else Some (content s p) in
  forall x, content s' x = read (run_schedule exec src g) x.
Proof. exact converges_to_clean_build. Qed.
Print Assumptions C09_converges_to_clean_build.

(* T3: success is reported exactly when no step that was reached dirty failed, was killed,
   was not started or lacked an input; such a step writes no log entry *)
Theorem C09_failure_propagates :
  forall (exec : Z -> list Z -> Z) (garbage : Z) (d : edge -> action) (g : list edge) (s : st),
  snd (ninja_run exec garbage d s g) = true <-> failures exec garbage d s g = 0%nat.
Proof. exact (fun exec garbage => failure_propagates exec garbage (fun _ => true) (fun _ _ => [])). Qed.
Print Assumptions C09_failure_propagates.
Theorem C09_no_log_without_success :
  forall (exec : Z -> list Z -> Z) (garbage : Z) (d : edge -> action) (s : st) (b : bool) (e : edge),
  d e <> Run -> nlog (fst (step exec garbage d (s, b) e)) = nlog s.
Proof. exact no_log_without_success. Qed.
Print Assumptions C09_no_log_without_success.

(* T5: rewriting the resolved configuration dirties every edge that reads it *)
Theorem C09_config_edit_dirties :
  forall (exec : Z -> list Z -> Z) (isout : Z -> bool) (insof : Z -> Z -> list Z) (s : st) (cfg c : Z) (e : edge),
  Inv exec isout insof s -> In cfg (e_ins e) -> clean (edit s cfg c) e = false.
Proof. exact config_edit_dirties. Qed.
Print Assumptions C09_config_edit_dirties.

(* T4: both side conditions are necessary -- machine-checked histories on which ninja's
   rules report success and keep a stale output (known findings F17 and F7) *)
Theorem C09_truncated_output_refutes_convergence :
  exists (h : list op) (g : list edge),
    wf_graph g = true /\
    snd (ninja_run ex_exec ex_garbage all_run (fold_left (apply ex_exec ex_garbage) h init) g) = true /\
    exists e, In e g /\
      let s' := fst (ninja_run ex_exec ex_garbage all_run (fold_left (apply ex_exec ex_garbage) h init) g) in
      content s' (e_out e) <> ex_exec (e_cmd e) (map (content s') (e_ins e)).
Proof. exact truncated_output_refutes_convergence. Qed.
Print Assumptions C09_truncated_output_refutes_convergence.
Theorem C09_older_mtime_rename_refutes_convergence :
  exists (h : list op) (g : list edge),
    wf_graph g = true /\
    snd (ninja_run ex_exec ex_garbage all_run (fold_left (apply ex_exec ex_garbage) h init) g) = true /\
    exists e, In e g /\
      let s' := fst (ninja_run ex_exec ex_garbage all_run (fold_left (apply ex_exec ex_garbage) h init) g) in
      content s' (e_out e) <> ex_exec (e_cmd e) (map (content s') (e_ins e)).
Proof. exact older_mtime_rename_refutes_convergence. Qed.
Print Assumptions C09_older_mtime_rename_refutes_convergence.

(* non-vacuity: a history with edits, an option change, a failing step and a truncating kill
   satisfies the hypotheses of C09_converges *)
Theorem C09_hypotheses_satisfiable :
  ok_history ex_exec ex_garbage ex_isout ex_insof init h_good /\
  snd (ninja_run ex_exec ex_garbage all_run (fold_left (apply ex_exec ex_garbage) h_good init) (g_opt 2)) = true.
Proof. exact hypotheses_satisfiable. Qed.
Print Assumptions C09_hypotheses_satisfiable.
