(* C01 correspondence: placement affines, advance width, the painted_layers loop *)
From Coq Require Import List ZArith QArith Qcanon Bool String.
From Verif Require Import Model.Field Model.Affine Model.Fixed Model.ViewBox Model.Compile Corr.Common.
Import ListNotations.
Local Open Scope Qc_scope.

Definition R4 (x y w h : Qc) : rect QcOps := @Rect QcOps x y w h.

(* (viewBox, ascender, descender, width, user transform, impl font-space affine, impl OT-SVG affine) *)
Definition pl_case := (rect QcOps * Qc * Qc * Qc * aff QcOps * aff QcOps * aff QcOps)%type.
Definition pl_agree (c : pl_case) : bool :=
  let '(vb, asc, desc, w, u, f, o) := c in
  aff_eqb (map_viewbox_to_font_space vb asc desc w u) f &&
  aff_eqb (map_viewbox_to_otsvg_space vb asc desc w u) o.
(* the specification, evaluated on the implementation's affine at probe points *)
Definition spec_point (vb : rect QcOps) (asc desc w : Qc) (u : aff QcOps) (p : pt QcOps) : pt QcOps :=
  let s := (asc - desc) / rh vb in
  let dx := (w - s * rw vb) / (1 + 1) in
  map_point u (P2 (s * (px p - rx vb) + dx) (asc - s * (py p - ry vb))).
Definition probes (vb : rect QcOps) : list (pt QcOps) :=
  [P2 (rx vb) (ry vb); P2 (rx vb + rw vb) (ry vb); P2 (rx vb) (ry vb + rh vb); P2 (q 3 1) (q (-7) 2)].
Definition pl_prop (c : pl_case) : bool :=
  let '(vb, asc, desc, w, u, f, o) := c in
  forallb (fun p => pt_eqb (map_point f p) (spec_point vb asc desc w u p)) (probes vb).

(* advance: (asc, desc, width, vb.w, vb.h, impl) *)
Definition av_case := (Z * Z * Z * Q * Q * Z)%type.
Definition av_agree (c : av_case) : bool :=
  let '(asc, desc, w, vw, vh, r) := c in Z.eqb (advance_width asc desc w vw vh) r.
Definition av_prop (c : av_case) : bool :=
  let '(asc, desc, w, vw, vh, r) := c in
  let X := (inject_Z (asc - desc) * vw / vh)%Q in
  (w <=? r)%Z && Qle_bool (X - (1#2))%Q (inject_Z r) &&
  (Z.eqb r w || Qle_bool (inject_Z r) (X + (1#2))%Q).

(* painted_layers: shapes are numbered; alpha is a rational *)
Definition T := tree Z Qc.
Definition alpha_ok (a : Qc) : bool := negb (Qcleb a 0) && negb (Qcleb 1 a).
Fixpoint tree_eqb (a b : T) {struct a} : bool :=
  match a, b with
  | Leaf _ _ x, Leaf _ _ y => Z.eqb x y
  | Node _ _ al cs, Node _ _ bl ds => Qc_eq_bool al bl && forest_eqb cs ds
  | _, _ => false
  end
with forest_eqb (a b : forest Z Qc) {struct a} : bool :=
  match a, b with
  | FNil _ _, FNil _ _ => true
  | FCons _ _ x r, FCons _ _ y s => tree_eqb x y && forest_eqb r s
  | _, _ => false
  end.
Definition L (x : Z) : T := Leaf Z Qc x.
Definition Nd (a : Qc) (cs : list T) : T := Node Z Qc a (forest_of Z Qc cs).
Definition cshape (d : nat) (x : Z) : nat * ctx Z Qc := (d, CShape Z Qc x).
Definition cgroup (d : nat) (a : Qc) : nat * ctx Z Qc := (d, CGroup Z Qc a).
Definition croot : nat * ctx Z Qc := (0%nat, CRoot Z Qc).
Definition cdefs : nat * ctx Z Qc := (1%nat, CDefs Z Qc).
(* (contexts of SVG.depth_first(), the tree the implementation built, the tree of the source) *)
Definition lay_case := (list (nat * ctx Z Qc) * option (list T) * list T)%type.
Definition lay_agree (c : lay_case) : bool :=
  let '(cx, out, _) := c in opt_eqb (list_eqb tree_eqb) (painted_layers Z Qc alpha_ok cx) out.
Definition lay_prop (c : lay_case) : bool :=
  let '(_, out, src) := c in
  match out with Some o => list_eqb tree_eqb o src | None => false end.
