(* C08: graphs written by the real driver, checked by the model's well-formedness predicate;
   source collection; intermediate-path disambiguation *)
From Coq Require Import List ZArith Bool Arith.
From Verif Require Import Model.Build Corr.Common.
Import ListNotations.
Local Open Scope Z_scope.

Definition E (o : Z) (i : list Z) (c : Z) : edge := Edge o i c.
(* a graph is given in a topological order computed by the harness *)
Definition graph_ok (g : list edge) : bool := wf_graph g.

(* config.load source collection: (argument path ids, implementation's source list) *)
Definition src_case := (list Z * list Z)%type.
Definition src_agree (c : src_case) : bool := list_eqb Z.eqb (sources (fst c)) (snd c).

(* _dest_for_src: (sources as (path id, name id) in call order, implementation's (path, n, name)) *)
Definition dst_case := (list (Z * Z) * list (Z * (nat * Z)))%type.
Definition dst_eqb (a b : Z * (nat * Z)) : bool :=
  Z.eqb (fst a) (fst b) && Nat.eqb (fst (snd a)) (fst (snd b)) && Z.eqb (snd (snd a)) (snd (snd b)).
Definition dst_agree (c : dst_case) : bool := list_eqb dst_eqb (dests [] (fst c)) (snd c).
(* property: distinct sources never share an intermediate path *)
Fixpoint all_distinct (l : list (nat * Z)) : bool :=
  match l with
  | [] => true
  | x :: r => negb (existsb (fun y => Nat.eqb (fst x) (fst y) && Z.eqb (snd x) (snd y)) r) && all_distinct r
  end.
Fixpoint paths_distinct (l : list Z) : bool :=
  match l with [] => true | x :: r => negb (existsb (Z.eqb x) r) && paths_distinct r end.
Definition dst_prop (c : dst_case) : bool :=
  if paths_distinct (map fst (snd c)) then all_distinct (map snd (snd c)) else true.
