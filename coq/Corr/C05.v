(* C05 correspondence: _bounds on paint trees with a glyph environment *)
From Coq Require Import List ZArith QArith Qcanon Bool String.
From Verif Require Import Model.Field Model.Affine Model.Color Model.Paint Model.Fixed
  Model.Bounds Model.ColrSem Generated.Consts Corr.Common.
Import ListNotations.

Definition genv_of (l : list (string * list (pt QcOps))) (g : string) : list (pt QcOps) :=
  match find (fun e => String.eqb (fst e) g) l with Some e => snd e | None => [] end.
Definition toQ (p : pt QcOps) : Q * Q := (this (px p), this (py p)).
Definition tolq : Qc := Q2Qc (k_almost_equal_tol K).

Definition model_bounds (env : list (string * list (pt QcOps))) (roots : list QPaint) (factor : Z) : bounds_result :=
  bounds (map (map toQ) (@bounds_points QcOps tolq (genv_of env) roots)) factor.

Definition zbox_eqb (a b : zbox) : bool :=
  let '(a0, a1, a2, a3) := a in let '(b0, b1, b2, b3) := b in
  Z.eqb a0 b0 && Z.eqb a1 b1 && Z.eqb a2 b2 && Z.eqb a3 b3.
Definition bres_eqb (a b : bounds_result) : bool :=
  match a, b with
  | NoBox, NoBox | AssertFail, AssertFail => true
  | Box x, Box y => zbox_eqb x y
  | _, _ => false
  end.

Definition bd_case := (list (string * list (pt QcOps)) * list QPaint * Z * bounds_result)%type.
Definition bd_agree (c : bd_case) : bool :=
  let '(env, roots, f, out) := c in bres_eqb (model_bounds env roots f) out.

(* property on the implementation's output, using the independent COLR placement
   semantics (not breadth_first) *)
Definition placed_points (env : list (string * list (pt QcOps))) (roots : list QPaint) : list (Q * Q) :=
  List.concat (map (fun r => List.concat (map (fun pl => let '(g, a, _) := pl in map (fun p => toQ (map_point a p)) (genv_of env g))
                                   (placements r aid))) roots).
Definition half : Q := (1 # 2)%Q.
(* slack: a transform within 1e-9 of the identity is skipped by the implementation *)
Definition slack : Q := (1 # 1000)%Q.
Definition bd_prop (c : bd_case) : bool :=
  let '(env, roots, f, out) := c in
  let pts := placed_points env roots in
  match out with
  | NoBox => match pts with [] => true | _ => false end
  | AssertFail => false
  | Box (a, b, c0, d) =>
      negb (match pts with [] => true | _ => false end) &&
      forallb (fun p => Qle_bool (inject_Z a - half - slack) (fst p) && Qle_bool (fst p) (inject_Z c0 + half + slack) &&
                        Qle_bool (inject_Z b - half - slack) (snd p) && Qle_bool (snd p) (inject_Z d + half + slack)) pts &&
      (if (1 <? f)%Z then Z.eqb (a mod f) 0 && Z.eqb (b mod f) 0 && Z.eqb (c0 mod f) 0 && Z.eqb (d mod f) 0 else true)
  end.

(* _quantize_bounding_rect alone *)
Definition qr_case := (Z * Z * Z * Z * Z * option zbox)%type.
Definition qr_agree (c : qr_case) : bool :=
  let '(x0, y0, x1, y1, f, out) := c in opt_eqb zbox_eqb (quantize_rect (x0, y0, x1, y1) f) out.
Definition qr_prop (c : qr_case) : bool :=
  let '(x0, y0, x1, y1, f, out) := c in
  match out with
  | None => (f <? 1)%Z
  | Some (a, b, c0, d) =>
      (1 <=? f)%Z && (a <=? x0)%Z && (b <=? y0)%Z && (x1 <=? c0)%Z && (y1 <=? d)%Z &&
      Z.eqb (a mod f) 0 && Z.eqb (b mod f) 0 && Z.eqb (c0 mod f) 0 && Z.eqb (d mod f) 0 &&
      (x0 - a <? f)%Z && (y0 - b <? f)%Z && (c0 - x1 <? f)%Z && (d - y1 <? f)%Z
  end.
