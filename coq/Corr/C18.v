(* Correspondence for C18 (runs inside vm_compute): the designspace document the real
   write_variable_font.main builds (font compiler and UFO reader stubbed out by the harness)
   against Model.VarModel on the same configuration. *)
From Coq Require Import List QArith Bool String.
From Verif Require Import Model.VarModel.
Import ListNotations.
Local Open Scope Q_scope.

Definition qeqb (a b : Q) : bool := Qeq_bool a b.
Definition oq_eqb (a : option Q) (b : Q) : bool := match a with Some x => qeqb x b | None => false end.

(* observed: axis descriptors (tag, name, min, default, max) and, per master, the location's items *)
Definition ds_obs := (list (string * string * Q * Q * Q) * list (list (string * Q)))%type.
Definition ds_case := (list axis * list position * option ds_obs)%type.

Fixpoint all_some {A} (l : list (option A)) : option (list A) :=
  match l with
  | [] => Some []
  | None :: _ => None
  | Some x :: r => match all_some r with Some y => Some (x :: y) | None => None end
  end.

Definition def_eqb (a b : string * string * Q * Q * Q) : bool :=
  let '(t, n, lo, d, hi) := a in let '(t', n', lo', d', hi') := b in
  String.eqb t t' && String.eqb n n' && qeqb lo lo' && qeqb d d' && qeqb hi hi'.
Fixpoint list_eqb2 {A} (e : A -> A -> bool) (l m : list A) : bool :=
  match l, m with
  | [], [] => true
  | x :: l', y :: m' => e x y && list_eqb2 e l' m'
  | _, _ => false
  end.
Definition loc_agree (model : list (string * Q)) (obs : list (string * Q)) : bool :=
  forallb (fun kv => oq_eqb (loc_value (fst kv) model) (snd kv)) obs &&
  forallb (fun kv => existsb (fun kv' => String.eqb (fst kv) (fst kv')) obs) model.

Definition ds_agree (c : ds_case) : bool :=
  let '(axes, masters, obs) := c in
  let defs := all_some (map (fun a => axis_def a masters) axes) in
  let locs := all_some (map (location (axis_names axes)) masters) in
  match defs, locs, obs with
  | Some ds, Some ls, Some (ods, ols) =>
      list_eqb2 def_eqb ds ods &&
      (fix go (l : list (list (string * Q))) (m : list (list (string * Q))) : bool :=
         match l, m with
         | [], [] => true
         | x :: l', y :: m' => loc_agree x y && go l' m'
         | _, _ => false
         end) ls ols
  | None, _, None | _, None, None => true     (* min() of an empty sequence / KeyError: the program stops *)
  | _, _, _ => false
  end.

(* the theorem's conclusion evaluated on the observed document: every master sits at its own
   position on every axis, and the descriptor carries the configured default *)
Definition ds_prop (c : ds_case) : bool :=
  let '(axes, masters, obs) := c in
  match obs with
  | None => true
  | Some (ods, ols) =>
      (fix gd (l : list axis) (m : list (string * string * Q * Q * Q)) : bool :=
         match l, m with
         | [], [] => true
         | a :: l', d :: m' =>
             (let '(t, n, lo, dflt, hi) := d in String.eqb t (a_tag a) && String.eqb n (a_name a) && qeqb dflt (a_default a)) && gd l' m'
         | _, _ => false
         end) axes ods &&
      (fix go (ms : list position) (ls : list (list (string * Q))) : bool :=
         match ms, ls with
         | [], [] => true
         | m :: ms', l :: ls' =>
             forallb (fun a => match lookup_s (a_tag a) m with
                               | Some v => oq_eqb (lookup_s (a_name a) l) v
                               | None => true
                               end) axes && go ms' ls'
         | _, _ => false
         end) masters ols
  end.
