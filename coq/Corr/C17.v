From Coq Require Import List ZArith Bool.
From Verif Require Import Model.Inputs Corr.Common.
Import ListNotations.
Definition acc_agree (c : list Z * bool) : bool := Bool.eqb (inputs_accepted Z Z.eqb (fst c)) (snd c).
