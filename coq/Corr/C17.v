From Coq Require Import List ZArith Bool.
From Verif Require Import Model.Inputs Corr.Common.
Import ListNotations.
Definition acc_agree (c : list Z * bool) : bool := Bool.eqb (inputs_accepted Z Z.eqb (fst c)) (snd c).
(* config.load's acceptance of the masters' source sets: (file names per master as numbers, accepted?) *)
Definition mst_agree (c : list (list Z) * bool) : bool := Bool.eqb (masters_accepted Z Z.eqb (fst c)) (snd c).
