(* C10 correspondence: csv writer/reader, GlyphMapping rows *)
From Coq Require Import List NArith Bool.
From Verif Require Import Model.Csv Corr.Common.
Import ListNotations.
Local Open Scope N_scope.

Definition text_eqb : text -> text -> bool := list_eqb N.eqb.
Definition row_eqb : list text -> list text -> bool := list_eqb text_eqb.
Definition rows_eqb : list (list text) -> list (list text) -> bool := list_eqb row_eqb.

(* (rows, text the real writer produced, what the real reader returned for that text) *)
Definition csv_case := (list (list text) * text * option (list (list text)))%type.
Definition csv_agree (c : csv_case) : bool :=
  let '(rows, t, back) := c in
  text_eqb (write_rows rows) t && opt_eqb rows_eqb (read_text t) back.

(* arbitrary text through the real reader *)
Definition rdr_case := (text * option (list (list text)))%type.
Definition rdr_agree (c : rdr_case) : bool := opt_eqb rows_eqb (read_text (fst c)) (snd c).

(* GlyphMapping: (g, csv_line(g), load_from(csv_line(g))) *)
Definition optt_eqb := opt_eqb text_eqb.
Definition gmap_eqb (a b : gmap) : bool :=
  optt_eqb (g_svg a) (g_svg b) && optt_eqb (g_bitmap a) (g_bitmap b) &&
  text_eqb (g_name a) (g_name b) && list_eqb N.eqb (g_cps a) (g_cps b).
Definition gm_case := (gmap * text * option (list gmap))%type.
Definition model_load (t : text) : option (list gmap) :=
  match read_text t with
  | Some rows => all_some (map parse_row rows)
  | None => None
  end.
Definition gm_agree (c : gm_case) : bool :=
  let '(g, t, back) := c in
  text_eqb (write_row (csv_row g)) t && opt_eqb (list_eqb gmap_eqb) (model_load t) back.
(* the property: what was written is what is read *)
Definition gm_prop (c : gm_case) : bool :=
  let '(g, t, back) := c in
  match back with Some [g'] => gmap_eqb g g' | _ => false end.

(* glyph.glyph_name: (code points, implementation's name or None when it was hashed) *)
From Verif Require Import Model.GlyphName.
Definition gname_case := (list N * option text)%type.
Definition gname_agree (c : gname_case) : bool := opt_eqb text_eqb (glyph_name (fst c)) (snd c).

(* codepoints.from_filename on stems that can match at their first character *)
From Verif Require Import Model.FileName.
Definition fname_case := (text * option (list N))%type.
Definition fname_agree (c : fname_case) : bool := opt_eqb (list_eqb N.eqb) (from_filename (fst c)) (snd c).
