(* C14 correspondence + property evaluation *)
From Coq Require Import List ZArith QArith Qround Qminmax Qabs Bool.
From Verif Require Import Model.Fixed Model.Bitmap Corr.Common.
Import ListNotations.
Local Open Scope Q_scope.

Definition optZ_eq (a b : option Z) : bool :=
  match a, b with None, None => true | Some x, Some y => Z.eqb x y | _, _ => false end.
Definition bm_eqb (a b : bmetrics) : bool :=
  Z.eqb (m_x_offset a) (m_x_offset b) && Z.eqb (m_y_offset a) (m_y_offset b) &&
  Z.eqb (m_line_height a) (m_line_height b) && Z.eqb (m_line_ascent a) (m_line_ascent b).
Definition optbm_eq (a b : option bmetrics) : bool :=
  match a, b with None, None => true | Some x, Some y => bm_eqb x y | _, _ => false end.

(* (config, w, h, impl ppem, impl width_in_pixels, impl metrics (created with impl ppem)) *)
Definition mt_case := (bconfig * Z * Z * option Z * option Z * option bmetrics)%type.
Definition mt_agree (c : mt_case) : bool :=
  let '(cfg, w, h, ip, iw, im) := c in
  optZ_eq (ppem cfg h) ip && optZ_eq (width_in_pixels cfg w h) iw &&
  match ip with
  | Some p => optbm_eq (metrics_create_gen w cfg w h p) im
  | None => match im with None => true | Some _ => false end
  end.

Definition qabs_le (x b : Q) : bool := Qle_bool x b && Qle_bool (- b) x.
(* property, judged on the implementation's numbers, for sane configurations
   (upem > 0, ascender > descender, image height = bitmap_resolution > 0) *)
Definition mt_prop (c : mt_case) : bool :=
  let '(cfg, w, h, ip, iw, im) := c in
  if negb ((0 <? b_upem cfg)%Z && (0 <? em cfg)%Z && (0 <? h)%Z && (0 <? w)%Z && (0 <=? b_width cfg)%Z) then true else
  match ip, iw with
  | Some p, Some wpx =>
    let k := zq p / zq (b_upem cfg) in
    (* ppem = round(upem * h / em) *)
    qabs_le (zq p - zq (b_upem cfg * h) / zq (em cfg)) (1#2) &&
    (* pixel advance = round(max(width, w * em / h) * h / em) *)
    qabs_le (zq wpx - Qmax (zq (b_width cfg)) (zq (w * em cfg) / zq h) * zq h / zq (em cfg)) (1#2) &&
    match im with
    | None =>
        (* rejection is only allowed for unrepresentable metrics: resolution outside uint8
           or a vertical offset more than one pixel outside int8 *)
        negb (in_range 0 255 (b_resolution cfg)) ||
        (let la := zq (b_ascender cfg) * k in
         let lh := py_round (zq (em cfg) * k) in
         let y := py_round (la - (1#2) * zq (lh - b_resolution cfg)) in
         negb (in_range (-129) 128 y))
    | Some m =>
        in_range 0 255 (b_resolution cfg) && in_range (-128) 127 (m_y_offset m) &&
        qabs_le (zq (m_line_height m) - zq (em cfg) * k) (1#2) &&
        qabs_le (zq (m_line_ascent m) - zq (b_ascender cfg) * k) (1#2) &&
        (* vertical: bitmap centre vs em-box centre (only meaningful when the image height is
           the configured resolution, which is how nanoemoji renders bitmaps) *)
        (if (h =? b_resolution cfg)%Z then
           qabs_le ((zq (m_y_offset m) - zq h / 2) - (zq (b_ascender cfg) * k + zq (b_descender cfg) * k) / 2) (7#4)
         else true) &&
        (* horizontal: bitmap centred in its pixel advance *)
        (if (w <=? wpx)%Z && in_range (-128) 127 (py_round (zq (wpx - w) / 2)) then
           qabs_le ((zq (m_x_offset m) + zq w / 2) - zq wpx / 2) (1#2)
         else true)
    end
  | _, _ => false
  end.

(* nudge *)
Definition nd_case := (Z * Z * Z * Z)%type.   (* lo hi v impl *)
Definition nd_agree (c : nd_case) : bool := let '(lo, hi, v, r) := c in Z.eqb (nudge lo hi v) r.
Definition nd_prop (c : nd_case) : bool :=
  let '(lo, hi, v, r) := c in
  (Z.abs (r - v) <=? 1)%Z && (if in_range lo hi v then Z.eqb r v else true) &&
  (if in_range (lo - 1) (hi + 1) v then in_range lo hi r else Z.eqb r v).

(* offsets: (initial, lens, impl list) *)
Definition zz_eqb (a b : Z * Z) : bool := Z.eqb (fst a) (fst b) && Z.eqb (snd a) (snd b).
Definition of_case := (Z * list Z * list (Z * Z))%type.
Definition of_agree (c : of_case) : bool := let '(o, l, r) := c in list_eqb zz_eqb (cbdt_offsets o l) r.

(* runs: (sorted gids, runs the implementation's strikes cover) *)
Definition rn_case := (list Z * list (list Z))%type.
Definition rn_agree (c : rn_case) : bool := list_eqb (list_eqb Z.eqb) (cbdt_runs (fst c)) (snd c).
Fixpoint consecutive (l : list Z) : bool :=
  match l with a :: ((b :: _) as r) => Z.eqb b (a + 1) && consecutive r | _ => true end.
Fixpoint maximal (rs : list (list Z)) : bool :=
  match rs with
  | r1 :: ((r2 :: _) as rest) =>
      (match r2 with [] => false | x :: _ => negb (Z.eqb x (last r1 0%Z + 1)) end) && maximal rest
  | _ => true
  end.
Definition rn_prop (c : rn_case) : bool :=
  list_eqb Z.eqb (List.concat (snd c)) (fst c) &&
  forallb (fun r => match r with [] => false | _ => consecutive r end) (snd c) && maximal (snd c).
