(* Correspondence for C02 (runs inside vm_compute): svg._create_use_element and
   svg._ensure_groups_grouped_in_glyph_order against Model.OtSvg. *)
From Coq Require Import List ZArith QArith Qcanon Bool Arith.
From Verif Require Import Model.Field Model.Affine Model.OtSvg Corr.Common Corr.C16.
Import ListNotations.
Local Open Scope Qc_scope.

(* (reuse transform R, the x, y and transform attributes the <use> got - absent ones are 0 / identity) *)
Definition use_case := (QA * Qc * Qc * QA)%type.
Definition tolU : Qc := q 1 1000.          (* attribute values are written with three decimals *)
Definition use_agree (c : use_case) : bool :=
  let '(R, x, y, t) := c in
  let '(mx, my, mt) := @use_attrs QcOps R in
  within tolU mx x && within tolU my y && aff_within tolU mt t.
(* the property on the implementation's output: SVG's reading of <use x y transform> is R, up to the
   three-decimal rounding seen through the translation *)
Definition use_prop (c : use_case) : bool :=
  let '(R, x, y, t) := c in
  let eff := @use_effective QcOps (x, y, t) in
  let tol := q 1 500 + q 1 500 * (qabs x + qabs y) in
  aff_within tol eff R.

(* (old glyph order, groups, new order the real function handed to reorder_glyphs, glyph ids it gave the group members) *)
Definition ord_case := (list Z * list (list Z) * list Z * list (Z * nat))%type.
Definition ord_agree (c : ord_case) : bool :=
  let '(old, groups, new, gids) := c in
  list_eqb Z.eqb (ensure_order Z Z.eqb old groups) new &&
  (* every group member's glyph id is its position in the model's order *)
  forallb (fun gi => match nth_error (ensure_order Z Z.eqb old groups) (snd gi) with Some g => Z.eqb g (fst gi) | None => false end) gids.
