(* Correspondence for C20 (runs inside vm_compute): config._pop_flag against Model.Config.pop_flag. *)
From Coq Require Import List ZArith Bool.
From Verif Require Import Model.Config Corr.Common.
Import ListNotations.

(* (flag value or None, value in the file or absent, the field's default, what _pop_flag returned) *)
Definition pf_case := (option Z * option Z * Z * Z)%type.
Definition pf_agree (c : pf_case) : bool :=
  let '(flag, file, dflt, got) := c in Z.eqb (pop_flag flag file dflt) got.
