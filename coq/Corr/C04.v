(* Correspondence for C04 (runs inside vm_compute): glyph names are taken to be the codepoint
   sequences themselves (the harness maps the implementation's glyph names back to the sequences
   they were made from, which is possible exactly when the names are distinct - checked there). *)
From Coq Require Import List NArith Bool Arith.
From Verif Require Import Model.Shaping Corr.Common.
Import ListNotations.

Definition seq := list N.
Definition seq_eqb : seq -> seq -> bool := list_eqb N.eqb.
Definition nm (s : seq) : seq := s.

Definition rule_eqb (a b : list seq * seq) : bool := list_eqb seq_eqb (fst a) (fst b) && seq_eqb (snd a) (snd b).
Definition same_members {A} (e : A -> A -> bool) (l m : list A) : bool :=
  Nat.eqb (length l) (length m) && forallb (fun x => existsb (e x) m) l && forallb (fun x => existsb (e x) l) m.

(* features.generate_fea: (sequences, rules parsed from the text it wrote: components, target) *)
Definition fea_case := (list seq * list (list seq * seq))%type.
Definition fea_agree (c : fea_case) : bool := same_members rule_eqb (rules seq nm (fst c)) (snd c).

(* write_font._ensure_codepoints_will_have_glyphs on a recording UFO: (sequences, codepoints that got a blank glyph) *)
Definition blank_case := (list seq * list N)%type.
Fixpoint dedup (l : list N) : list N :=
  match l with [] => [] | x :: r => if existsb (N.eqb x) r then dedup r else x :: dedup r end.
Definition blank_agree (c : blank_case) : bool := same_members N.eqb (dedup (need_blanks (fst c))) (snd c).

(* the font's own cmap + GSUB applied to a text by the reference shaper: (sequences of the font, text,
   glyphs reached as sequences; None = a glyph the harness cannot name) *)
Definition shape_case := (list seq * seq * option (list seq))%type.
Definition shape_agree (c : shape_case) : bool :=
  let '(seqs, s, obs) := c in
  match obs with
  | Some gl => list_eqb seq_eqb (shape seq seq_eqb nm seqs s) gl
  | None => false
  end.
(* the property on the implementation's output: a source's own sequence reaches exactly its glyph *)
Definition shape_prop (c : shape_case) : bool :=
  let '(seqs, s, obs) := c in
  if existsb (seq_eqb s) seqs then match obs with Some [g] => seq_eqb g s | _ => false end else true.
