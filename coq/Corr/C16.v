(* Correspondence + property evaluation for C16 (runs inside vm_compute). *)
From Coq Require Import List ZArith QArith Qcanon Bool String.
From Verif Require Import Model.Field Model.Affine Model.Color Model.Paint Model.Fixed
  Generated.Consts Corr.Common.
Import ListNotations.

Notation QA := (aff QcOps).
Notation QP := (paint QcOps).
Notation QPt := (pt QcOps).
Local Open Scope Qc_scope.
Notation int16_safe1 := (@int16_safe1 QcOps).
Notation f2dot14_safe1 := (@f2dot14_safe1 QcOps).
Notation fixed_safe1 := (@fixed_safe1 QcOps).
Notation in_uint16 := (@in_uint16 QcOps).
Notation in_int16 := (@in_int16 QcOps).
Notation decompose_uniform_transform := (@decompose_uniform_transform QcOps).
Notation radial_apply_transform := (@radial_apply_transform QcOps).
Notation linear_apply_transform := (@linear_apply_transform QcOps).
Notation transformed := (@transformed QcOps).

Definition qabs (x : Qc) : Qc := fabs QcOps x.
Definition qle (x y : Qc) : bool := Qcleb x y.
Definition within (tol x y : Qc) : bool := qle (qabs (x - y)) tol.

Definition unwrap (p : QP) : option QP :=
  match p with
  | PTransform _ q | PTranslate _ _ q | PScale _ _ q | PScaleAroundCenter _ _ _ q
  | PScaleUniform _ q | PScaleUniformAroundCenter _ _ q | PRotate _ _ q
  | PRotateAroundCenter _ _ _ q | PSkew _ _ q | PSkewAroundCenter _ _ _ q => Some q
  | _ => None
  end.

(* OpenType precision: half an F2Dot14 step on the linear part, one step on translation *)
Definition tolL : Qc := q 1 32768.
Definition tolT : Qc := q 1 16384.
Definition aff_close (s t : QA) : bool :=
  within tolL (aa s) (aa t) && within tolL (ab s) (ab t) && within tolL (ac s) (ac t) &&
  within tolL (ad s) (ad t) && within tolT (ae s) (ae t) && within tolT (af s) (af t).

(* range check of the emitted paint's own fields against the *spec* constants *)
Definition spec_fields_ok (p : QP) : bool :=
  match p with
  | PTranslate dx dy _ => int16_safe1 KSpec dx && int16_safe1 KSpec dy
  | PScale sx sy _ => f2dot14_safe1 KSpec sx && f2dot14_safe1 KSpec sy
  | PScaleUniform s _ => f2dot14_safe1 KSpec s
  | PScaleAroundCenter sx sy c _ =>
      f2dot14_safe1 KSpec sx && f2dot14_safe1 KSpec sy && int16_safe1 KSpec (px c) && int16_safe1 KSpec (py c)
  | PScaleUniformAroundCenter s c _ =>
      f2dot14_safe1 KSpec s && int16_safe1 KSpec (px c) && int16_safe1 KSpec (py c)
  | PTransform _ _ => true
  | _ => false
  end.

(* ---- Paint*.gettransform of the classes transformed emits (used by breadth_first, clip boxes, COLRv0 layers) ---- *)
Definition gt_case := (QP * QA)%type.
Definition gt_agree (c : gt_case) : bool := aff_eqb (gettransform (fst c)) (snd c).

Definition aff_within (tol : Qc) (s t : QA) : bool :=
  within tol (aa s) (aa t) && within tol (ab s) (ab t) && within tol (ac s) (ac t) &&
  within tol (ad s) (ad t) && within tol (ae s) (ae t) && within tol (af s) (af t).
(* the rotate / skew classes compute with floating-point trigonometry: the same affine to within 1e-6 *)
Definition gt_close (c : gt_case) : bool := aff_within (q 1 1000000) (gettransform (fst c)) (snd c).

(* ---- transformed ---- *)
Definition tr_case := (QA * QP * QP)%type.
Definition tr_agree (c : tr_case) : bool :=
  let '(t, tg, out) := c in paint_eqb (transformed K t tg) out.
(* the property, judged on the implementation's output alone *)
Definition tr_prop (c : tr_case) : bool :=
  let '(t, tg, out) := c in
  if aff_eqb t aid then paint_eqb out tg
  else match unwrap out with
       | Some inner => paint_eqb inner tg && aff_close (gettransform out) t && spec_fields_ok out
       | None => false
       end.

(* ---- range predicates: case = (value, int16_safe, f2dot14_safe, fixed_safe) as the code answered *)
Definition rg_case := (Qc * bool * bool * bool)%type.
Definition rg_agree (c : rg_case) : bool :=
  let '(v, i, f, x) := c in
  Bool.eqb (int16_safe1 K v) i && Bool.eqb (f2dot14_safe1 K v) f && Bool.eqb (fixed_safe1 K v) x.
Definition rg_prop (c : rg_case) : bool :=
  let '(v, i, f, x) := c in
  Bool.eqb (int16_safe1 KSpec v) i && Bool.eqb (f2dot14_safe1 KSpec v) f && Bool.eqb (fixed_safe1 KSpec v) x.

(* ---- linear gradient apply_transform: (t, check, input gradient, impl result) *)
Definition ln_case := (QA * bool * QP * option QP)%type.
Definition ln_agree (c : ln_case) : bool :=
  let '(t, chk, g, out) := c in opt_eqb paint_eqb (linear_apply_transform K t chk g) out.

Definition det2 (ax ay bx by_ : Qc) : Qc := ax * by_ - ay * bx.
(* t(x) of a 3-point linear gradient; None when degenerate *)
Definition lin_t (p0 p1 p2 x : QPt) : option Qc :=
  let d := det2 (px p1 - px p0) (py p1 - py p0) (px p2 - px p0) (py p2 - py p0) in
  if Qc_eq_bool d 0 then None
  else Some (det2 (px x - px p0) (py x - py p0) (px p2 - px p0) (py p2 - py p0) / d).
Definition probe_pts : list QPt := [P2 0 0; P2 (q 1 1) 0; P2 0 (q 1 1); P2 (q 7 1) (q (-3) 1)].
Definition ln_prop (c : ln_case) : bool :=
  let '(t, chk, g, out) := c in
  match g, out with
  | PLinear e s p0 p1 p2, Some (PLinear e' s' p0' p1' p2') =>
      extend_eqb e e' && list_eqb stop_eqb s s' &&
      (if chk then pt_in_int16 KSpec p0' && pt_in_int16 KSpec p1' && pt_in_int16 KSpec p2' else true) &&
      (if Qc_eq_bool (adet t) 0 then true else
       forallb (fun x => match lin_t p0 p1 p2 x, lin_t p0' p1' p2' (map_point t x) with
                         | Some a, Some b => Qc_eq_bool a b
                         | None, _ => true
                         | Some _, None => false
                         end) probe_pts)
  | PLinear e s p0 p1 p2, None =>
      (* an error is only justified by a coordinate outside int16 *)
      chk && negb (pt_in_int16 KSpec (map_point t p0) && pt_in_int16 KSpec (map_point t p1)
                   && pt_in_int16 KSpec (map_point t p2))
  | _, _ => false
  end.

(* ---- _decompose_uniform_transform: (hx, hy, t, impl result) *)
Definition du_case := (Qc * Qc * QA * option (QA * QA))%type.
Definition pair_aff_eqb (x y : QA * QA) : bool := aff_eqb (fst x) (fst y) && aff_eqb (snd x) (snd y).
Definition du_agree (c : du_case) : bool :=
  let '(hx, hy, t, out) := c in opt_eqb pair_aff_eqb (decompose_uniform_transform K hx hy t) out.
Definition tolD : Qc := q 1 1000.
Definition round9_tol (m : Qc) : Qc := q 1 1000000 + q 1 1000000000 * m.
Definition du_prop (c : du_case) : bool :=
  let '(hx, hy, t, out) := c in
  match out with
  | Some (uni, rem) =>
      (* uniform part: a = +-d, b = c = 0; remainder has no translation; recomposes *)
      Qc_eq_bool (ab uni) 0 && Qc_eq_bool (ac uni) 0 &&
      (Qc_eq_bool (aa uni) (ad uni) || Qc_eq_bool (aa uni) (- ad uni)) &&
      Qc_eq_bool (ae rem) 0 && Qc_eq_bool (af rem) 0 &&
      (* the remainder is rounded to 9 decimals: the recomposition may be off by
         5e-10 x the magnitudes it multiplies (pre-translation, uniform scale) *)
      aff_within (round9_tol (qabs (ae uni) + qabs (af uni) + qabs (aa uni))) (compose_ltr [uni; rem]) t
  | None => true   (* an assertion: loud, not silent *)
  end.

(* ---- radial apply_transform: (hx, hy, t, check, gradient, impl result) *)
Definition rd_case := (Qc * Qc * QA * bool * QP * option QP)%type.
Definition rd_agree (c : rd_case) : bool :=
  let '(hx, hy, t, chk, g, out) := c in
  opt_eqb paint_eqb (radial_apply_transform K hx hy t chk g) out.
(* canonical invariant of a radial gradient placed by an affine W:
   centres W c0, W c1 and the shape matrices r_i r_j L L^T (L = linear part of W) *)
Definition sym2 (w : QA) (k : Qc) : Qc * Qc * Qc :=
  (k * (aa w * aa w + ac w * ac w), k * (aa w * ab w + ac w * ad w), k * (ab w * ab w + ad w * ad w)).
(* entries are compared relative to the size of the whole shape matrix (its trace): the
   remainder is rounded to 9 decimals, an absolute error on entries of size r^2 *)
Definition sym2_close (a b : Qc * Qc * Qc) : bool :=
  let '(a1, a2, a3) := a in let '(b1, b2, b3) := b in
  let tol := q 1 1000 + q 1 1000000 * (qabs a1 + qabs a3 + qabs b1 + qabs b3) in
  within tol a1 b1 && within tol a2 b2 && within tol a3 b3.
Definition pt_close (tol : Qc) (p r : QPt) : bool := within tol (px p) (px r) && within tol (py p) (py r).
Definition rd_prop (c : rd_case) : bool :=
  let '(hx, hy, t, chk, g, out) := c in
  match g, out with
  | PRadial e s c0 c1 r0 r1, Some o =>
      let '(w, inner) := match unwrap o with Some i => (gettransform o, i) | None => (aid, o) end in
      match inner with
      | PRadial e' s' c0' c1' r0' r1' =>
          extend_eqb e e' && list_eqb stop_eqb s s' &&
          (match unwrap o with Some _ => spec_fields_ok o | None => true end) &&
          (if chk then pt_in_int16 KSpec c0' && pt_in_int16 KSpec c1' && in_uint16 KSpec r0' && in_uint16 KSpec r1' else true) &&
          pt_close (round9_tol (qabs (px c0') + qabs (py c0'))) (map_point w c0') (map_point t c0) &&
          pt_close (round9_tol (qabs (px c1') + qabs (py c1'))) (map_point w c1') (map_point t c1) &&
          sym2_close (sym2 w (r0' * r0')) (sym2 t (r0 * r0)) &&
          sym2_close (sym2 w (r1' * r1')) (sym2 t (r1 * r1)) &&
          sym2_close (sym2 w (r0' * r1')) (sym2 t (r0 * r1))
      | _ => false
      end
  | PRadial _ _ _ _ _ _, None => true  (* OverflowError / AssertionError: loud *)
  | _, _ => false
  end.
