(* Correspondence for C13 (runs inside vm_compute): the element tree the real
   colr_to_svg._colr_v1_glyph_to_svg wrote for a glyph, against Model.SvgTree.to_svg on the
   same paint graph.  Attribute values are written with three decimals, so numbers are
   compared within tolerances. *)
From Coq Require Import List ZArith QArith Qcanon Bool String.
From Verif Require Import Model.Field Model.Affine Model.Color Model.Paint Model.ViewBox
  Model.ColrToSvg Model.SvgTree Corr.Common Corr.C16.
Import ListNotations.
Local Open Scope Qc_scope.

Notation QEl := (svgel QcOps).

(* what the harness read from the SVG *)
Definition ostop := (Qc * Z * Z * Z * Qc)%type.          (* offset, r g b, stop-opacity *)
Inductive ofill :=
| OSolid (r g b : Z) (a : Qc)
| OLinear (e : extend) (st : list ostop) (x1 y1 x2 y2 : Qc) (gt : QA)
| ORadial (e : extend) (st : list ostop) (fx fy fr cx cy r : Qc) (gt : QA)
| ONone.
Inductive oel :=
| OPath (attr : QA) (g : string) (f : ofill)
| OGroupT (m : QA) (kids : list oel)
| OGroupO (a : Qc) (kids : list oel).

Fixpoint list_agree {A B} (f : A -> B -> bool) (l : list A) (m : list B) : bool :=
  match l, m with
  | [], [] => true
  | x :: l', y :: m' => f x y && list_agree f l' m'
  | _, _ => false
  end.

Definition tolN : Qc := q 1 1000.      (* a number written with 3 decimals *)
Definition tolP : Qc := q 1 50.        (* a point derived from points rounded to 3 decimals *)

Definition stop_agree (s : stop QcOps) (o : ostop) : bool :=
  let '(off, r, g, b, a) := o in
  let c := scol s in
  within tolN (soff s) off && Z.eqb (cr c) r && Z.eqb (cg c) g && Z.eqb (cb c) b && within tolN (calpha c) a.

Definition sym2_rel (a b : Qc * Qc * Qc) : bool :=
  let '(a1, a2, a3) := a in let '(b1, b2, b3) := b in
  let tol := q 1 100 + q 1 100 * (qabs a1 + qabs a3 + qabs b1 + qabs b3) in
  within tol a1 b1 && within tol a2 b2 && within tol a3 b3.

Definition fill_agree (leaf : QP) (fm : QA) (o : ofill) : bool :=
  match leaf, o with
  | PSolid c, OSolid r g b a =>
      Z.eqb (cr c) r && Z.eqb (cg c) g && Z.eqb (cb c) b && within tolN (calpha c) a
  | PLinear e st p0 p1 p2, OLinear e' st' x1 y1 x2 y2 gt =>
      let q0 := map_point fm p0 in let q1 := map_point fm p1 in let q2 := map_point fm p2 in
      let q3 := @linear_p3 QcOps q0 q1 q2 in
      extend_eqb e e' && list_agree stop_agree st st' &&
      pt_close tolN q0 (P2 x1 y1) && pt_close tolP q3 (P2 x2 y2) && aff_within tolN gt aid
  | PRadial e st c0 c1 r0 r1, ORadial e' st' fx fy fr cx cy r gt =>
      let tc := q 1 50 + q 1 200 * (qabs cx + qabs cy) in
      extend_eqb e e' && list_agree stop_agree st st' &&
      pt_close tc (map_point gt (P2 fx fy)) (map_point fm c0) &&
      pt_close tc (map_point gt (P2 cx cy)) (map_point fm c1) &&
      sym2_rel (sym2 gt (r * r)) (sym2 fm (r1 * r1)) &&
      sym2_rel (sym2 gt (fr * fr)) (sym2 fm (r0 * r0))
  | _, _ => false
  end.

Fixpoint el_agree (V : QA) (m : QEl) (o : oel) {struct m} : bool :=
  match m, o with
  | SPath attr draw g leaf fm, OPath attr' g' f =>
      aff_within tolN attr attr' && aff_eqb draw V && String.eqb g g' && fill_agree leaf fm f
  | SGroupT t kids, OGroupT t' kids' =>
      aff_within tolN t t' &&
      (fix go (l : list QEl) (l' : list oel) {struct l} : bool :=
         match l, l' with
         | [], [] => true
         | x :: r, y :: r' => el_agree V x y && go r r'
         | _, _ => false
         end) kids kids'
  | SGroupO a kids, OGroupO a' kids' =>
      within tolN a a' &&
      (fix go (l : list QEl) (l' : list oel) {struct l} : bool :=
         match l, l' with
         | [], [] => true
         | x :: r, y :: r' => el_agree V x y && go r r'
         | _, _ => false
         end) kids kids'
  | _, _ => false
  end.

Fixpoint lookup (env : list (string * QP)) (g : string) : option QP :=
  match env with
  | [] => None
  | (k, p) :: r => if String.eqb k g then Some p else lookup r g
  end.

(* viewBox, ascender, descender, advance; the base glyph records; the glyph's root paint; what was written *)
Definition tv_case := (rect QcOps * Qc * Qc * Qc * list (string * QP) * QP * option (list oel))%type.
Definition tv_agree (c : tv_case) : bool :=
  let '(vb, asc, desc, width, env, root, obs) := c in
  let V := @font_to_vbox QcOps vb asc desc width in
  match to_svg V (lookup env) 64 root aid, obs with
  | Some els, Some os => list_agree (el_agree V) els os
  | None, None => true
  | _, _ => false
  end.

(* the theorem's conclusion, evaluated: the layers of the written tree are the graph's layers
   seen through V (exact: both sides are computed by the model) *)
Definition layer_eqb (a b : layer QcOps) : bool :=
  let '(g, P, leaf, G, ops) := a in let '(g', P', leaf', G', ops') := b in
  String.eqb g g' && aff_eqb P P' && paint_eqb leaf leaf' && aff_eqb G G' && list_eqb Qc_eq_bool ops ops'.
Definition tv_prop (c : tv_case) : bool :=
  let '(vb, asc, desc, width, env, root, obs) := c in
  let V := @font_to_vbox QcOps vb asc desc width in
  match to_svg V (lookup env) 64 root aid, colr_sem (lookup env) 64 root aid [] with
  | Some els, Some ls => list_eqb layer_eqb (svg_sem_list aid [] els) (map (through V) ls)
  | None, _ => true
  | Some _, None => false
  end.
