(* C06 correspondence: GlyphReuseCache op sequences with oracle tables *)
From Coq Require Import List ZArith QArith Qcanon Bool String.
From Verif Require Import Model.Field Model.Affine Model.Color Model.Paint Model.Fixed Model.Reuse Generated.Consts Corr.Common.
Import ListNotations.

Definition tbl_norm (t : list (Z * Z)) (p : Z) : Z :=
  match find (fun e => Z.eqb (fst e) p) t with Some e => snd e | None => -1 - p end.
Definition tbl_aff (t : list (Z * Z * option (aff QcOps))) (a b : Z) : option (aff QcOps) :=
  match find (fun e => Z.eqb (fst (fst e)) a && Z.eqb (snd (fst e)) b) t with Some e => snd e | None => None end.

Definition res_eqb (x y : res (O:=QcOps)) : bool :=
  match x, y with
  | RAdd, RAdd => true
  | RTry a, RTry b => opt_eqb (fun u v => String.eqb (fst u) (fst v) && aff_eqb (snd u) (snd v)) a b
  | _, _ => false
  end.
(* (disabled, normalize table, affine_between table, ops, implementation results) *)
Definition ru_case := (bool * list (Z * Z) * list (Z * Z * option (aff QcOps)) * list op * list (res (O:=QcOps)))%type.
Definition ru_agree (c : ru_case) : bool :=
  let '(dis, nt, at_, ops, out) := c in
  list_eqb res_eqb (run K (tbl_norm nt) (tbl_aff at_) (empty_cache dis) ops) out.
(* property on the implementation's answers: a reuse answer is a previously added glyph, with
   an affine the oracle produced for that donor, fitting Fixed; nothing when disabled *)
Fixpoint ru_check (dis : bool) (nt : list (Z * Z)) (at_ : list (Z * Z * option (aff QcOps)))
         (added : list (string * Z)) (ops : list op) (out : list (res (O:=QcOps))) : bool :=
  match ops, out with
  | [], [] => true
  | OpAdd n p :: ops', RAdd :: out' => ru_check dis nt at_ ((n, p) :: added) ops' out'
  | OpTry p :: ops', RTry None :: out' => ru_check dis nt at_ added ops' out'
  | OpTry p :: ops', RTry (Some (g, a)) :: out' =>
      negb dis &&
      existsb (fun e => String.eqb (fst e) g && Z.eqb (tbl_norm nt (snd e)) (tbl_norm nt p) &&
                        opt_eqb aff_eqb (tbl_aff at_ (snd e) p) (Some a)) added &&
      @fixed_safe_aff QcOps KSpec a &&
      ru_check dis nt at_ added ops' out'
  | _, _ => false
  end.
Definition ru_prop (c : ru_case) : bool :=
  let '(dis, nt, at_, ops, out) := c in ru_check dis nt at_ [] ops out.
