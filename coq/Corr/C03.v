(* C03 correspondence: Paint.breadth_first PaintGlyph contexts, in order *)
From Coq Require Import List ZArith QArith Qcanon Bool String.
From Verif Require Import Model.Field Model.Affine Model.Color Model.Paint Model.ColrSem
  Proofs.Bfs_facts Corr.Common.
Import ListNotations.

Definition gt_eqb (a b : string * aff QcOps) : bool := String.eqb (fst a) (fst b) && aff_eqb (snd a) (snd b).
Definition model_ctxs (p : QPaint) : list (string * aff QcOps) :=
  map (fun c => (fst (fst c), snd (fst c))) (glyph_ctxs (breadth_first p)).
(* (paint, [(glyph, transform)] of the implementation's breadth_first) *)
Definition bf_case := (QPaint * list (string * aff QcOps))%type.
Definition bf_agree (c : bf_case) : bool := list_eqb gt_eqb (model_ctxs (fst c)) (snd c).
(* property (for trees shaped like nanoemoji's): same multiset as the COLR placements *)
Fixpoint remove_first (x : string * aff QcOps) (l : list (string * aff QcOps)) : option (list (string * aff QcOps)) :=
  match l with
  | [] => None
  | y :: r => if gt_eqb x y then Some r else match remove_first x r with Some r' => Some (y :: r') | None => None end
  end.
Fixpoint multiset_eqb (a b : list (string * aff QcOps)) : bool :=
  match a with
  | [] => match b with [] => true | _ => false end
  | x :: r => match remove_first x b with Some b' => multiset_eqb r b' | None => false end
  end.
Definition bf_prop (c : bf_case) : bool :=
  let p := fst c in
  if transform_depth_le 1 p && simple_fills p then
    multiset_eqb (snd c) (map (fun c => (fst (fst c), snd (fst c))) (placements p aid))
  else true.

(* Paint.depth_first (added by the COLRv0 ordering fix): pre-order contexts = [ctxs] *)
Definition model_dfs (p : QPaint) : list (string * aff QcOps) :=
  map (fun c => (fst (fst c), snd (fst c))) (glyph_ctxs (ctxs p aid)).
Definition df_agree (c : bf_case) : bool := list_eqb gt_eqb (model_dfs (fst c)) (snd c).
(* in pre-order the glyphs come out in paint order: for nanoemoji-shaped trees, exactly the
   COLR placements as a list *)
Definition df_prop (c : bf_case) : bool :=
  let p := fst c in
  if transform_depth_le 1 p && simple_fills p then
    list_eqb gt_eqb (snd c) (map (fun c => (fst (fst c), snd (fst c))) (placements p aid))
  else true.
