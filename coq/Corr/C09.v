(* C09 correspondence: the model's dirtiness rule against ninja's own dry run *)
From Coq Require Import List ZArith Bool.
From Verif Require Import Model.Build Model.Ninja Corr.Common.
Import ListNotations.
Local Open Scope Z_scope.

Definition mk_files (l : list (Z * Z)) : Z -> option (Z * Z) :=
  fun p => match find (fun e => fst e =? p) l with Some (_, m) => Some (0, m) | None => None end.
Definition mk_log (l : list (Z * (Z * Z))) : Z -> option logent :=
  fun p => match find (fun e => fst e =? p) l with Some (_, (c, t)) => Some (LogEnt c t) | None => None end.
Definition mk_edge (x : Z * list Z * Z) : edge := let '(o, ins, c) := x in Edge o ins c.

(* the outputs of the edges an invocation would run, in graph order *)
Fixpoint would_run (s : st) (g : list edge) : list Z :=
  match g with
  | [] => []
  | e :: r =>
      let s1 := fst (step (fun _ _ => 0) 0 all_run (s, true) e) in
      if clean s e then would_run s1 r else e_out e :: would_run s1 r
  end.

(* (files with mtimes, log (output, command id, recorded time), clock, graph in topological order,
    outputs ninja -n says it would rebuild, in the same order) *)
Definition dirty_case := (list (Z * Z) * list (Z * (Z * Z)) * Z * list (Z * list Z * Z) * list Z)%type.
Definition dirty_agree (c : dirty_case) : bool :=
  let '(fl, lg, ck, g, impl) := c in
  list_eqb Z.eqb (would_run (Ninja.St (mk_files fl) (mk_log lg) ck) (map mk_edge g)) impl.
