(* C11 correspondence: _sort_by_gid / ReorderList on (glyph id, record) data *)
From Coq Require Import List ZArith Bool.
From Verif Require Import Model.Reorder Corr.Common.
Import ListNotations.
Local Open Scope Z_scope.

(* glyphs are identified by an integer name-id; gid is given as an association list *)
Definition gid_of (m : list (Z * Z)) (g : Z) : Z :=
  match find (fun e => Z.eqb (fst e) g) m with Some e => snd e | None => -1 end.
Definition zlist_eqb := list_eqb Z.eqb.
(* (gid map, glyphs, parallel list (records are integers), impl glyphs, impl parallel) *)
Definition sg_case := (list (Z * Z) * list Z * option (list Z) * list Z * option (list Z))%type.
Definition sg_agree (c : sg_case) : bool :=
  let '(m, gl, par, ogl, opar) := c in
  let '(g', p') := sort_by_gid Z Z (gid_of m) gl par in
  zlist_eqb g' ogl && opt_eqb zlist_eqb p' opar.
Fixpoint increasing (m : list (Z * Z)) (l : list Z) : bool :=
  match l with a :: ((b :: _) as r) => (gid_of m a <=? gid_of m b) && increasing m r | _ => true end.
Definition pair_mem (p : Z * Z) (l : list (Z * Z)) : bool :=
  existsb (fun q => Z.eqb (fst p) (fst q) && Z.eqb (snd p) (snd q)) l.
Definition sg_prop (c : sg_case) : bool :=
  let '(m, gl, par, ogl, opar) := c in
  increasing m ogl && Nat.eqb (length ogl) (length gl) &&
  forallb (fun g => existsb (Z.eqb g) ogl) gl &&
  match par, opar with
  | Some p, Some p' =>
      Nat.eqb (length p') (length p) &&
      forallb (fun ge => pair_mem ge (combine ogl p')) (combine gl p)
  | None, None => true
  | _, _ => false
  end.
