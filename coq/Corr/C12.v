(* C12 correspondence: glue_together._copy_svg's glyph order; "{gid:05d}" naming *)
From Coq Require Import List ZArith NArith Bool.
From Verif Require Import Model.Glue Model.Csv Corr.Common.
Import ListNotations.

Definition zlist_eqb := list_eqb Z.eqb.
(* (target order, donor SVG glyphs (gid, name), implementation's new order or None = IndexError) *)
Definition order_case := (list Z * list (nat * Z) * option (list Z))%type.
Definition order_agree (c : order_case) : bool :=
  let '(target, svg, impl) := c in
  opt_eqb zlist_eqb (copy_svg_order Z Z.eqb target svg) impl.
(* judged on the implementation's output: donor gids stay valid, order is a permutation *)
Fixpoint count (x : Z) (l : list Z) : nat := match l with [] => 0 | y :: r => (if Z.eqb x y then 1 else 0) + count x r end.
Definition order_prop (c : order_case) : bool :=
  let '(target, svg, impl) := c in
  match impl with
  | None => true   (* the build stops; nothing is written *)
  | Some new =>
      forallb (fun gn => match nth_error new (fst gn) with Some n => Z.eqb n (snd gn) | None => false end) svg &&
      (* permutation of the target's order when the donor's SVG glyphs are glyphs of the target *)
      (negb (forallb (fun gn => existsb (Z.eqb (snd gn)) target) svg) ||
       Nat.eqb (length new) (length target) &&
       forallb (fun g => Nat.eqb (count g new) (count g target)) (target ++ new))
  end.

(* (gid, implementation's f"{gid:05d}" as character codes, int(stem) read back) *)
Definition stem_case := (N * list N * N)%type.
Definition stem_agree (c : stem_case) : bool :=
  let '(gid, s, back) := c in
  list_eqb N.eqb (gid_stem gid) s && opt_eqb N.eqb (stem_gid s) (Some back).

(* write_glyphmap_for_glyph_svgs: (files as (number, is_png) in argument order, rows the module
   printed as (number, has bitmap), or None when it stopped with an error) *)
From Verif Require Import Model.GlyphmapPairs.
Definition gm_case := (list (nat * bool) * option (list (nat * bool)))%type.
Definition gm_agree (c : gm_case) : bool :=
  let '(files, out) := c in
  let fs := map (fun f : nat * bool => (fst f, if snd f then KPng else KSvg)) files in
  opt_eqb (list_eqb (fun a b : nat * bool => Nat.eqb (fst a) (fst b) && Bool.eqb (snd a) (snd b)))
          (glyphmap_rows fs) out.
