(* C15: executable instance of the palette model + independent spec check on the
   implementation's output *)
From Coq Require Import List ZArith QArith Qcanon Bool Arith.
From Verif Require Import Model.Field Model.Color Model.Palette Corr.Common.
Import ListNotations.

Definition qcolor := color QcOps.
Definition q_cidx (c : qcolor) : option nat := option_map Z.to_nat (cidx c).
Definition qc_ltb (x y : Qc) : bool := negb (Qcleb y x).
(* Python tuple comparison of c[:4] *)
Definition q_ltb (a b : qcolor) : bool :=
  if Z.ltb (cr a) (cr b) then true else if Z.ltb (cr b) (cr a) then false else
  if Z.ltb (cg a) (cg b) then true else if Z.ltb (cg b) (cg a) then false else
  if Z.ltb (cb a) (cb b) then true else if Z.ltb (cb b) (cb a) then false else
  qc_ltb (calpha a) (calpha b).
Definition qblack : qcolor := @black QcOps.
Definition pal_model (l : list qcolor) : outcome qcolor :=
  uniq_sort_cpal_colors qcolor color_eqb q_cidx q_ltb qblack l.

Definition outcome_eqb (a b : outcome qcolor) : bool :=
  match a, b with
  | Palette _ p, Palette _ r => list_eqb color_eqb p r
  | ErrConflict _, ErrConflict _ | ErrIndex _, ErrIndex _ | ErrAssert _, ErrAssert _ => true
  | _, _ => false
  end.

Definition pal_case := (list qcolor * outcome qcolor)%type.
Definition pal_agree (c : pal_case) : bool := outcome_eqb (pal_model (fst c)) (snd c).

(* ---- the property, judged directly on what the implementation returned ---- *)
Definition set_of (l : list qcolor) : list qcolor :=
  match dedup qcolor color_eqb l with [] => [qblack] | s => s end.
Definition claimed (s : list qcolor) (i : nat) : option qcolor :=
  find (fun c => match q_cidx c with Some j => Nat.eqb i j | None => false end) s.
Definition conflicts (s : list qcolor) : bool := has_conflict qcolor q_cidx s.
Fixpoint free_slots (s : list qcolor) (pal : list qcolor) (i : nat) : list qcolor :=
  match pal with
  | [] => []
  | p :: r => match claimed s i with
              | Some _ => free_slots s r (S i)
              | None => p :: free_slots s r (S i)
              end
  end.
Fixpoint is_prefix_then_black (u pal : list qcolor) : bool :=
  match u, pal with
  | [], r => forallb (color_eqb qblack) r
  | x :: u', p :: r => color_eqb x p && is_prefix_then_black u' r
  | _ :: _, [] => false
  end.
Fixpoint strictly_ascending (l : list qcolor) : bool :=
  match l with
  | a :: ((b :: _) as r) => q_ltb a b && strictly_ascending r
  | _ => true
  end.
Definition pal_prop (c : pal_case) : bool :=
  let s := set_of (fst c) in
  match snd c with
  | ErrConflict _ => conflicts s
  | Palette _ pal =>
      negb (conflicts s) &&
      Nat.eqb (length pal) (Nat.max (length s) (max_idx_plus1 qcolor q_cidx s)) &&
      negb (Nat.eqb (length pal) 0) &&
      (* every colour of the set is in the palette *)
      forallb (fun x => mem qcolor color_eqb x pal) s &&
      (* an indexed colour sits at its index *)
      forallb (fun x => match q_cidx x with
                        | Some n => match nth_error pal n with Some y => color_eqb x y | None => false end
                        | None => true end) s &&
      (* the unclaimed slots hold the unindexed colours, ascending, lowest slots first, then black *)
      (let u := filter (fun x => match q_cidx x with None => true | Some _ => false end) s in
       let free := free_slots s pal 0 in
       let placed := firstn (length u) free in
       strictly_ascending placed &&
       forallb (fun x => mem qcolor color_eqb x placed) u &&
       Nat.eqb (length placed) (length u) &&
       forallb (color_eqb qblack) (skipn (length u) free))
  | _ => false     (* IndexError / AssertionError must never happen *)
  end.
