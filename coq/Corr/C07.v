(* C07: table constraints evaluated on data abstracted from real fonts *)
From Coq Require Import List Arith NArith Bool.
From Verif Require Import Model.Validity Corr.Common.
Import ListNotations.

Record font_abs := FontAbs {
  fa_nglyphs : nat;
  fa_svg_docs : list (nat * nat);
  fa_colr_base : list nat; fa_colr_layers : list nat; fa_colr_palette : list N; fa_npalette : N;
  fa_cblc : list (nat * nat * list nat);
  fa_n_hmtx : nat; fa_n_outlines : nat; fa_n_maxp : nat; fa_n_post : option nat; fa_cmap : list nat }.

Definition font_valid (f : font_abs) : bool :=
  valid_svg_doclist (fa_svg_docs f) (fa_nglyphs f) &&
  valid_colr (fa_colr_base f) (fa_colr_layers f) (fa_colr_palette f) (fa_nglyphs f) (fa_npalette f) &&
  valid_cblc (fa_cblc f) (fa_nglyphs f) &&
  glyphset_agree (fa_nglyphs f) (fa_n_hmtx f) (fa_n_outlines f) (fa_n_maxp f) (fa_n_post f) (fa_cmap f).
