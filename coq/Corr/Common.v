(* Helpers for the correspondence check: boolean equalities on model values, literal
   constructors for the executable instance, failing-index search.  Nothing here is
   used by a theorem. *)
From Coq Require Import List ZArith QArith Qcanon Bool String.
From Verif Require Import Model.Field Model.Affine Model.Color Model.Paint.
Import ListNotations.

Definition q (n : Z) (d : positive) : Qc := Q2Qc (n # d).
Definition A6 (a b c d e f : Qc) : aff QcOps := @Aff QcOps a b c d e f.
Definition P2 (x y : Qc) : pt QcOps := @Pt QcOps x y.

Fixpoint bad_from {A} (f : A -> bool) (i : N) (l : list A) : list N :=
  match l with
  | [] => []
  | x :: r => if f x then bad_from f (N.succ i) r else i :: bad_from f (N.succ i) r
  end.
Definition bad {A} (f : A -> bool) (l : list A) : list N := bad_from f 0%N l.

Section Eqb.
Context {O : fops}.
Definition stop_eqb (a b : stop O) : bool :=
  feqb O (soff a) (soff b) && color_eqb (scol a) (scol b).
Fixpoint list_eqb {A} (e : A -> A -> bool) (l m : list A) : bool :=
  match l, m with
  | [], [] => true
  | x :: l', y :: m' => e x y && list_eqb e l' m'
  | _, _ => false
  end.
Definition opt_eqb {A} (e : A -> A -> bool) (a b : option A) : bool :=
  match a, b with None, None => true | Some x, Some y => e x y | _, _ => false end.

Fixpoint paint_eqb (p r : paint O) {struct p} : bool :=
  match p, r with
  | PColrLayers l, PColrLayers m =>
      (fix go (l m : list (paint O)) {struct l} : bool :=
         match l, m with
         | [], [] => true
         | x :: l', y :: m' => paint_eqb x y && go l' m'
         | _, _ => false
         end) l m
  | PSolid c, PSolid d => color_eqb c d
  | PLinear e s a b c, PLinear e' s' a' b' c' =>
      extend_eqb e e' && list_eqb stop_eqb s s' && pt_eqb a a' && pt_eqb b b' && pt_eqb c c'
  | PRadial e s a b r0 r1, PRadial e' s' a' b' r0' r1' =>
      extend_eqb e e' && list_eqb stop_eqb s s' && pt_eqb a a' && pt_eqb b b' &&
      feqb O r0 r0' && feqb O r1 r1'
  | PGlyph g x, PGlyph h y => String.eqb g h && paint_eqb x y
  | PColrGlyph g, PColrGlyph h => String.eqb g h
  | PTransform t x, PTransform u y => aff_eqb t u && paint_eqb x y
  | PTranslate a b x, PTranslate a' b' y => feqb O a a' && feqb O b b' && paint_eqb x y
  | PScale a b x, PScale a' b' y => feqb O a a' && feqb O b b' && paint_eqb x y
  | PScaleAroundCenter a b c x, PScaleAroundCenter a' b' c' y =>
      feqb O a a' && feqb O b b' && pt_eqb c c' && paint_eqb x y
  | PScaleUniform a x, PScaleUniform a' y => feqb O a a' && paint_eqb x y
  | PScaleUniformAroundCenter a c x, PScaleUniformAroundCenter a' c' y =>
      feqb O a a' && pt_eqb c c' && paint_eqb x y
  | PRotate a b x, PRotate a' b' y => feqb O a a' && feqb O b b' && paint_eqb x y
  | PRotateAroundCenter a b c x, PRotateAroundCenter a' b' c' y =>
      feqb O a a' && feqb O b b' && pt_eqb c c' && paint_eqb x y
  | PSkew a b x, PSkew a' b' y => feqb O a a' && feqb O b b' && paint_eqb x y
  | PSkewAroundCenter a b c x, PSkewAroundCenter a' b' c' y =>
      feqb O a a' && feqb O b b' && pt_eqb c c' && paint_eqb x y
  | PComposite m s b, PComposite m' s' b' => Z.eqb m m' && paint_eqb s s' && paint_eqb b b'
  | _, _ => false
  end.
End Eqb.

(* literal constructors at the executable instance (avoid implicit-argument inference on literals) *)
Definition C5 (r g b : Z) (a : Qc) (i : option Z) : color QcOps := @Color QcOps r g b a i.
Definition St (o : Qc) (c : color QcOps) : stop QcOps := @Stop QcOps o c.
Notation QPaint := (paint QcOps).
Definition LSolid (c : color QcOps) : QPaint := PSolid c.
Definition LLayers (l : list QPaint) : QPaint := PColrLayers l.
Definition LLinear e (s : list (stop QcOps)) (a b c : pt QcOps) : QPaint := PLinear e s a b c.
Definition LRadial e (s : list (stop QcOps)) (a b : pt QcOps) (r0 r1 : Qc) : QPaint := @PRadial QcOps e s a b r0 r1.
Definition LGlyph (g : string) (p : QPaint) : QPaint := PGlyph g p.
Definition LColrGlyph (g : string) : QPaint := @PColrGlyph QcOps g.
Definition LTransform (t : aff QcOps) (p : QPaint) : QPaint := PTransform t p.
Definition LTranslate (x y : Qc) (p : QPaint) : QPaint := @PTranslate QcOps x y p.
Definition LScale (x y : Qc) (p : QPaint) : QPaint := @PScale QcOps x y p.
Definition LScaleC (x y : Qc) (c : pt QcOps) (p : QPaint) : QPaint := @PScaleAroundCenter QcOps x y c p.
Definition LScaleU (s : Qc) (p : QPaint) : QPaint := @PScaleUniform QcOps s p.
Definition LScaleUC (s : Qc) (c : pt QcOps) (p : QPaint) : QPaint := @PScaleUniformAroundCenter QcOps s c p.
Definition LRotate (co si : Qc) (p : QPaint) : QPaint := @PRotate QcOps co si p.
Definition LRotateC (co si : Qc) (c : pt QcOps) (p : QPaint) : QPaint := @PRotateAroundCenter QcOps co si c p.
Definition LSkew (x y : Qc) (p : QPaint) : QPaint := @PSkew QcOps x y p.
Definition LSkewC (x y : Qc) (c : pt QcOps) (p : QPaint) : QPaint := @PSkewAroundCenter QcOps x y c p.
Definition LComposite (m : Z) (s b : QPaint) : QPaint := @PComposite QcOps m s b.
