#!/bin/bash
# Build the framework from files on disk only (offline): regenerate the tables from
# /repo's current tree, then a full .vo build of the Coq development.
set -e
cd "$(dirname "$0")"
export PATH=/venv/bin:$PATH
/venv/bin/python - <<'PY'
import sys
sys.path.insert(0, ".")
from harness import common
common.setup_env()
with common.coq_lock():
    f = common.regenerate_tables()
    if f:
        print("translator failures:", f)
        sys.exit(1)
PY
cd coq
coq_makefile -f _CoqProject -o Makefile > /dev/null
timeout 3000 make -j16
