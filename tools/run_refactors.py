#!/venv/bin/python
"""Apply each behaviour-preserving refactoring (refactors/<id>/round6_k.diff, made by a sub-agent that saw
only the property text and was asked NOT to change behaviour) to /repo's working tree, run
./check <id> --tier quick and expect silence (exit 0, no VIOLATION line); undo with git checkout.
`--all` instead applies the refactorings in bundles (greedily: every patch that still applies on top of the ones
already applied; the rest form the next bundle) and runs all twenty quick checks on each bundle's tree.  Writes refactors/results.json.  Not part of any check."""
import json
import subprocess
import sys
import time
from pathlib import Path

ROOT = Path("/verif/refactors")


def run(cmd, **kw):
    return subprocess.run(cmd, capture_output=True, text=True, **kw)


def check(pid):
    t = time.time()
    c = run(["./check", pid, "--tier", "quick"], cwd="/verif", timeout=3600)
    lines = [l for l in c.stdout.splitlines() if l.startswith("VIOLATION")]
    return dict(outcome="silent" if c.returncode == 0 and not lines else f"ALARM (exit {c.returncode})", first=lines[:2], wall_s=round(time.time() - t, 1))


def main():
    args = [a for a in sys.argv[1:] if not a.startswith("--")]
    want = set(args)
    res_path = ROOT / "results.json"
    results = json.loads(res_path.read_text()) if res_path.is_file() else {}
    if run(["git", "-C", "/repo", "status", "--porcelain", "--", "src"]).stdout.strip():
        sys.exit("/repo/src is not clean")
    diffs = [(d.name, diff) for d in sorted(p for p in ROOT.iterdir() if p.is_dir()) for diff in sorted(d.glob("*.diff"))]
    if "--all" in sys.argv:
        # bundles: greedily apply every remaining patch that still applies on top of the ones already applied, run all
        # twenty quick checks on that tree, repeat with the patches that did not fit until none is left
        remaining, bundles = list(diffs), []
        while remaining:
            applied, left = [], []
            try:
                for pid, diff in remaining:
                    if run(["git", "-C", "/repo", "apply", str(diff)]).returncode == 0:
                        applied.append(f"{pid}/{diff.stem}")
                    else:
                        left.append((pid, diff))
                if not applied:
                    bundles.append(dict(applied=[], does_not_apply=[f"{a}/{b.stem}" for a, b in left]))
                    break
                print(f"bundle {len(bundles) + 1}: {len(applied)} patches applied together: {' '.join(applied)}", flush=True)
                out = {}
                for i in range(1, 21):
                    pid = f"C{i:02d}"
                    if want and pid not in want:
                        continue
                    out[pid] = check(pid)
                    print(f"bundle {len(bundles) + 1}", pid, out[pid]["outcome"], out[pid]["first"], flush=True)
                bundles.append(dict(applied=applied, checks=out))
            finally:
                run(["git", "-C", "/repo", "checkout", "--", "."])
            remaining = left
        results["all-together"] = bundles
        res_path.write_text(json.dumps(results, indent=1) + "\n")
        return
    for pid, diff in diffs:
        key = f"{pid}/{diff.stem}"
        if want and pid not in want and key not in want:
            continue
        a = run(["git", "-C", "/repo", "apply", str(diff)])
        try:
            if a.returncode != 0:
                results[key] = dict(outcome="patch does not apply: " + a.stderr[-200:])
            else:
                results[key] = check(pid)
        finally:
            run(["git", "-C", "/repo", "checkout", "--", "."])
        print(key, results[key]["outcome"], results[key].get("first"), flush=True)
        res_path.write_text(json.dumps(results, indent=1) + "\n")


if __name__ == "__main__":
    main()
