#!/venv/bin/python
"""For every finding recorded as fixed: undo its fix in /repo's working tree (git revert
--no-commit), run the property's quick check, restore the tree.  The check must report the
violation again.  Writes tools/regress_fixed_result.json.  Not part of any check."""
import json
import subprocess
import sys
from pathlib import Path


def run(cmd, **kw):
    return subprocess.run(cmd, capture_output=True, text=True, **kw)


def main():
    findings = json.loads(Path("/verif/known_findings.json").read_text())["findings"]
    if run(["git", "-C", "/repo", "status", "--porcelain", "--", "src"]).stdout.strip():
        sys.exit("/repo/src is not clean")
    want = set(sys.argv[1:])
    out = {}
    for f in findings:
        if f["status"] != "fixed" or (want and f["id"] not in want):
            continue
        r = run(["git", "-C", "/repo", "revert", "--no-commit", f["commit"]])
        try:
            if r.returncode != 0:
                # a later fix touched the same lines: undo this fix by the hand-made patch kept for it, if there is one
                run(["git", "-C", "/repo", "revert", "--abort"])
                run(["git", "-C", "/repo", "reset", "--hard", "-q", "HEAD"])
                alt = Path(f"/verif/seeded/reverts/{f['id']}.diff")
                a = run(["git", "-C", "/repo", "apply", "-p1", str(alt)]) if alt.is_file() else None
                if a is None or a.returncode != 0:
                    out[f["id"]] = dict(outcome="revert failed: " + r.stderr[-200:])
                    print(f["id"], out[f["id"]], flush=True)
                    continue
            props = [f["property"]] + f.get("also_checked_by", [])
            res = {}
            for prop in props:
                c = run(["./check", prop, "--tier", "quick"], cwd="/verif", timeout=3600)
                lines = [l for l in c.stdout.splitlines() if l.startswith("VIOLATION")]
                res[prop] = "reported again" if c.returncode == 1 and lines else f"NOT reported (exit {c.returncode})"
            out[f["id"]] = dict(commit=f["commit"], outcome=res)
        finally:
            run(["git", "-C", "/repo", "revert", "--abort"])
            run(["git", "-C", "/repo", "reset", "--hard", "-q", "HEAD"])
        print(f["id"], out[f["id"]], flush=True)
    res_file = Path("/verif/tools/regress_fixed_result.json")
    if want and res_file.is_file():
        out = {**json.loads(res_file.read_text()), **out}
    res_file.write_text(json.dumps(out, indent=1) + "\n")


if __name__ == "__main__":
    main()
