#!/bin/bash
# copy seeded changes produced by the sub-agents from their scratch worktrees into /verif/seeded/<id>/
for d in /tmp/seed_C*; do
  id=$(basename $d | sed 's/seed_//')
  for k in 1 2 3; do
    if [ -s $d/seed_$k.diff ]; then
      mkdir -p /verif/seeded/$id
      cp $d/seed_$k.diff /verif/seeded/$id/seed_$k.diff
      [ -f $d/seed_demo_$k.py ] && cp $d/seed_demo_$k.py /verif/seeded/$id/seed_demo_$k.py
    fi
  done
done
for d in /tmp/zw_r*x; do
  [ -d "$d" ] || continue
  id=C$(basename $d | sed 's/zw_r\(..\)x/\1/')
  for k in 1 2 3; do
    if [ -s $d/round2_$k.diff ]; then
      mkdir -p /verif/seeded/$id
      cp $d/round2_$k.diff /verif/seeded/$id/round2_$k.diff
      [ -f $d/round2_demo_$k.py ] && cp $d/round2_demo_$k.py /verif/seeded/$id/round2_demo_$k.py
    fi
  done
done
for d in /tmp/zq_t*y; do
  [ -d "$d" ] || continue
  id=C$(basename $d | sed 's/zq_t\(..\)y/\1/')
  for k in 1 2 3; do
    if [ -s $d/round3_$k.diff ]; then
      mkdir -p /verif/seeded/$id
      cp $d/round3_$k.diff /verif/seeded/$id/round3_$k.diff
      [ -f $d/round3_demo_$k.py ] && cp $d/round3_demo_$k.py /verif/seeded/$id/round3_demo_$k.py
    fi
  done
done
for d in /tmp/zs_v*w; do
  [ -d "$d" ] || continue
  id=C$(basename $d | sed 's/zs_v\(..\)w/\1/')
  for k in 1 2 3; do
    if [ -s $d/round4_$k.diff ]; then
      mkdir -p /verif/seeded/$id
      cp $d/round4_$k.diff /verif/seeded/$id/round4_$k.diff
      [ -f $d/round4_demo_$k.py ] && cp $d/round4_demo_$k.py /verif/seeded/$id/round4_demo_$k.py
    fi
  done
done
for d in /tmp/zt_x*y; do
  [ -d "$d" ] || continue
  id=C$(basename $d | sed 's/zt_x\(..\)y/\1/')
  for k in 1 2 3; do
    if [ -s $d/round5_$k.diff ]; then
      mkdir -p /verif/seeded/$id
      cp $d/round5_$k.diff /verif/seeded/$id/round5_$k.diff
      [ -f $d/round5_demo_$k.py ] && cp $d/round5_demo_$k.py /verif/seeded/$id/round5_demo_$k.py
    fi
  done
done
for d in /tmp/zr_k*m; do
  [ -d "$d" ] || continue
  id=C$(basename $d | sed 's/zr_k\(..\)m/\1/')
  for k in 1 2 3; do
    if [ -s $d/round7_$k.diff ]; then
      mkdir -p /verif/seeded/$id
      cp $d/round7_$k.diff /verif/seeded/$id/round7_$k.diff
      [ -f $d/round7_demo_$k.py ] && cp $d/round7_demo_$k.py /verif/seeded/$id/round7_demo_$k.py
    fi
  done
done
for d in /tmp/zu_y*z; do
  [ -d "$d" ] || continue
  id=C$(basename $d | sed 's/zu_y\(..\)z/\1/')
  for k in 1 2; do
    if [ -s $d/round6_$k.diff ]; then
      mkdir -p /verif/refactors/$id
      cp $d/round6_$k.diff /verif/refactors/$id/round6_$k.diff
      [ -f $d/round6_check_$k.py ] && cp $d/round6_check_$k.py /verif/refactors/$id/round6_check_$k.py
    fi
  done
done
ls /verif/seeded
