#!/bin/bash
# maintenance: run every claimed check's quick tier under several seeds on the current tree
cd "$(dirname "$0")/.."
seeds=${SEEDS:-"1 2 3"}
for id in $(python3 -c "import json;print(' '.join(c['property_id'] for c in json.load(open('MANIFEST.json'))['checks']))"); do
  for s in $seeds; do
    out=$(VERIF_SEED=$s ./check $id 2>/dev/null | grep -v KNOWN-FINDING)
    rc=${PIPESTATUS[0]}
    if [ -n "$out" ]; then echo "$id seed=$s: $out"; fi
  done
done
echo allseeds-done
