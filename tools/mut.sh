#!/bin/bash
# usage: mut.sh <prop> <file> <python-regex-sub old> <new>   (applies, runs check, reverts)
prop=$1; file=$2; old=$3; new=$4
cd /repo && python3 - "$file" "$old" "$new" <<'PY'
import sys
p,old,new=sys.argv[1:4]
s=open(p).read()
assert old in s, "pattern not found"
open(p,'w').write(s.replace(old,new,1))
PY
[ $? -ne 0 ] && { git -C /repo checkout -- .; exit 2; }
cd /verif && ./check $prop 2>/dev/null | grep -v KNOWN-FINDING | head -3; echo "exit=${PIPESTATUS[0]}"
git -C /repo checkout -- .
