#!/usr/bin/env python3
"""Regenerates /verif/MANIFEST.json from the table below (kept in one place so the
manifest is always schema-valid and not_applicable is always current)."""
import json
from pathlib import Path

VERIF = Path(__file__).resolve().parent.parent

COMMON_NOTE = (
    "Trusted: Coq 8.16.1 kernel (vm_compute used for table theorems, witnesses and model evaluation; no native_compute); "
    "the hand-written Gallina model, tied to the code only by the correspondence check (differential testing on every run "
    "against /repo's working tree) and by tables regenerated from the source; the Python harness. Property theorems are "
    "closed under the global context unless the evidence lists axioms. Exact rational arithmetic; IEEE rounding is outside the claims."
)

CLAIMED = {
    "C01": dict(
        technique="machine-checked proof in Coq (field-algebra theorems for placement and gradient covariance, structural induction for the layer-building loop, lra for the advance rule) + correspondence by vm_compute + end-to-end picture comparison of real builds",
        text="Unbounded theorems: the viewBox->font placement is user o flip o uniform-scale-and-centre (over any field); the advance rule with half-even rounding; the reversed-pre-order/depth-stack loop of _painted_layers returns exactly the source's items as trees in source order for every picosvg-normal source (mutual induction), no assertion reachable; linear gradients are carried by any invertible affine, the default p2 is the SVG projection, uniform transforms map gradient circles to circles. The models are tied to color_glyph.py by evaluating them in Coq on random Fractions / generated picosvg documents. The composition (incl. reuse rewrite, palette, quantisation) is checked end to end: generated source sets x configurations x {glyf,cff,cff2}_colr_1 are compiled by the real code, reloaded, and every glyph's COLR paint graph is compared layer by layer (boundary distance, group alpha structure, colours, gradient geometry) with the placed source. A corpus of directed reuse sets (one-axis scales and mirrors with an offset at integral coordinates, gradients with their own transform) runs first; CFF flavours are built as .otf so that CFF/CFF2 outlines are really exercised; the ClipBox must not cut a painted layer.",
        ref="DESIGN.md 8 C01",
    ),
    "C02": dict(
        technique="machine-checked proof in Coq (placement law incl. the general conjugation law and a refutation of the unrestricted statement; <use> split; glyph reshuffle permutation/contiguity) + end-to-end rendering of the SVG table by an independent OT-SVG interpreter",
        text="Unbounded theorems over any field: the OT-SVG placement equals the mirrored font placement exactly when the user transform commutes with the mirror, the law that holds for every user transform conjugates it by the mirror, and the unrestricted statement is refuted by a machine-checked witness (known finding F6); the x/y + residual matrix of a <use> denotes exactly the reuse transform; the reshuffle is a permutation that gives every sharing group consecutive glyph ids in group order and keeps .notdef first. Document assembly is judged end to end: generated source sets x configurations x {picosvg, picosvgz, untouchedsvg, untouchedsvgz} are built by the real code, the document covering each glyph id is rendered by an independent interpreter (g/path/use with x,y,transform, fill inheritance, userSpaceOnUse gradients) and compared layer by layer with the placed source; ids unique, hrefs resolve in-document, exactly one glyph<id>. Found and fixed: paint moved onto an in-place <use> target (F1); known: F6, 3-decimal rounding of <use> transforms (F12).",
        ref="DESIGN.md 8 C02",
    ),
    "C03": dict(
        technique="machine-checked proof in Coq (breadth-first walk = COLR placements under the one-transform invariant, by nested induction over paint trees; refutation for nested transforms) + correspondence by vm_compute + end-to-end comparison of COLRv0/glyf builds",
        text="Unbounded theorems over any field: Paint.breadth_first and a depth-first enumeration visit the same contexts (queue invariant); under the invariant the compiler establishes (at most one transform paint above a PaintGlyph, glyph-free fills) the (glyph, transform, fill) triples consumed by _colr0_layers/_glyf_ufo/_bounds are exactly the placements of the COLR rendering semantics; with nested transforms the walk composes in the wrong order (machine-checked witness; latent, unreachable from nanoemoji's trees). The walk's model is tied to the code by evaluating it in Coq on generated trees. End to end: generated sources x configurations x {glyf_colr_0, cff_colr_0, cff2_colr_0, glyf} are built by the real code: COLRv0 layers compared in z-order with CPAL colour+alpha (solid sources), outlines matched one-to-one with placed source shapes (any source), base glyph bounds cover layers, glyf contours match sources one-to-one.",
        ref="DESIGN.md 8 C03",
    ),
    "C04": dict(
        technique="machine-checked proof in Coq (shaping theorem for every set of sequences: cmap + longest-first ligatures reach exactly the source's glyph; blank-glyph bookkeeping) + reference shaper run on real builds in all 13 formats",
        text="Unbounded theorems: for every glyph-naming function whose single-codepoint names are pairwise distinct and every set of sequences (prefixes/extensions of one another, shared components), shaping a multi-codepoint source sequence yields exactly its glyph and a single codepoint is left to cmap; every codepoint that occurs in a sequence has a glyph (its own source's or a blank one) and blanks never shadow a source; the advance rule. End to end: generated sequence sets (ZWJ/VS16/tag characters, names over 63 characters) x all 13 colour formats x configurations are built by the real code; a reference shaper (cmap + GSUB ligatures in stored order) on the reloaded binary must reach, for each source, a distinct glyph carrying that source's identifying artwork (COLR/glyf/OT-SVG picture or PNG bytes) with the right advance; .notdef, space and blank glyphs checked. Known finding F3 (g_ prefix collision) steered around and witnessed.",
        ref="DESIGN.md 8 C04",
    ),
    "C05": dict(
        technique="machine-checked proof in Coq (lia/lra theorems about the clip-box computation) + correspondence by vm_compute + independent COLR placement semantics evaluated on the implementation's boxes",
        text="Unbounded theorems: every control point fed to the bounds computation lies in the emitted box widened by the half unit otRound may move an edge; quantised edges are multiples of the step, at most one step outward; no box iff nothing painted; the assertion is unreachable. Model tied to write_font._bounds/_quantize_bounding_rect by evaluating it in Coq on generated paint trees and glyph environments; the implementation's boxes are also judged against placements computed by an independent COLR semantics.",
        ref="DESIGN.md 8 C05",
    ),
    "C06": dict(
        technique="machine-checked proof in Coq (state-machine invariant of the reuse cache with the recogniser as an oracle; algebraic cancellation of the gradient counter-transform) + correspondence by vm_compute on operation sequences + metamorphic end-to-end comparison reuse on/off",
        text="Unbounded theorems: with tolerance -1 try_reuse answers None in every cache state; over every history of add_glyph calls a reuse answer names a glyph that was added, with the same normal form, carrying exactly the affine the recogniser returned for that donor, and that affine fits Fixed 16.16 (otherwise the caller takes the un-reused branch); wrapping a donor in R while pre-composing a gradient transform with R^-1 leaves the gradient where it was (any field, det R != 0). The cache model is tied to GlyphReuseCache by replaying random operation sequences with picosvg's answers recorded as oracle tables. The property's own observation is run end to end: identical generated sources (recurring shapes under isometries, non-uniform scale, large translation, near misses, tiny donors, gradients on reused shapes) built with reuse on and off in COLRv1/COLRv0 are compared glyph by glyph, layer by layer. Found and fixed: COLRv0 layer order depended on reuse (F11); known: tolerance 0 crashes (F10). Also: reuse on/off pairs in picosvg through the OT-SVG interpreter, and a corpus that runs first (mirrored/stretched reuse at integral coordinates, gradients with their own transform on reused shapes, the witness of repaired finding F11). Known: F10 (tolerance 0), F18 (a shape grazing the viewBox edge is clipped to an empty path and the build fails).",
        ref="DESIGN.md 8 C06",
    ),
    "C07": dict(
        technique="machine-checked proof in Coq (validity of the SVG document list produced by the reshuffle; strike runs and offsets) + executable Coq validity predicates evaluated by vm_compute on tables abstracted from every built font + load/decompile/re-save/reload comparison",
        text="Unbounded theorems: the reshuffle's (first gid, count) ranges of non-empty groups are sorted by start, pairwise disjoint and inside the glyph set; CBDT strikes index maximal runs of consecutive gids with exactly one bitmap per glyph; offsets contiguous. The table constraints themselves (SVG document list, COLR base records strictly increasing with every glyph/layer/palette reference in range, CBLC strikes, hmtx/outlines/maxp/post/cmap agreement) are executable Coq predicates evaluated on an abstraction of every font built in all 13 formats (.ttf/.otf); each font is loaded with lazy=False, fully decompiled, re-saved, reloaded and compared table by table; SVG documents are checked for unique ids, in-document hrefs and no cross-glyph references; post format per flavour. A corpus runs first (glyphs in separate OT-SVG documents sharing one gradient), and a few fonts written by the real maximum_color CLI are validated with the same functions.",
        ref="DESIGN.md 8 C07",
    ),
    "C08": dict(
        technique="machine-checked proof in Coq (confluence of hermetic DAG execution for every dependency-respecting schedule; the source list is a function of the argument set) + graphs written by the real driver checked by the model's predicate + repeated real CLI builds under permuted arguments, hash seeds, parallelism and directories + strace of every step",
        text="Unbounded theorems: for every hermetic tool semantics, every well-formed graph (unique outputs, acyclic) and every schedule that runs each edge once after the producers of its inputs, every file ends with the same content, and that content is a fixed point of its edge; config.load's source list depends only on the set of arguments. Tie: the build.ninja the real driver writes is parsed (fail-closed), topologically sorted and checked by the model's wf_graph inside Coq, every write_font edge must declare config/fea/glyphmap/part file; each build step is traced with strace and may only read files its edge transitively declares (the hermeticity hypothesis). End to end: real CLI builds of generated source sets in vector, OT-SVG and bitmap formats under reversed/shuffled/duplicated argv, up to ten PYTHONHASHSEEDs, ninja -j1/-j16, other cwd and build directory: font sha256 and all intermediates (except the parts files the property excludes) must coincide. Also proved: _dest_for_src gives distinct sources distinct intermediate paths, keeps the file name, and returns the same slot for a source seen again. A corpus set (reused shapes carrying several paint attributes, picosvg) runs first under eleven hash seeds.",
        ref="DESIGN.md 8 C08",
    ),
    "C09": dict(
        technique="machine-checked proof in Coq (invariant over all histories of a ninja model: convergence of a fault-free invocation to the clean build under two side conditions, both shown necessary by machine-checked counter-histories; failure propagation) + ninja's dry run against the model's dirtiness rule by vm_compute + real CLI histories with faults injected from outside",
        text="Model: files with mtimes, ninja's log (command, recorded start time), user operations (edit with fresh mtime, remove, rename keeping the mtime) and an invocation over an arbitrary graph in which every dirty step may run, fail, be killed after a truncated write or not start. Unbounded theorem (any tool semantics, any history): if renames are honest about time and truncating kills hit only steps whose logged result is already invalidated or absent, then after one further invocation in which every step succeeds every output equals its tool applied to the final inputs, i.e. the value of a clean build (uniqueness of the edge equations); success is reported iff no reached step failed/was killed/was skipped, and such a step writes no log entry; a rewritten config dirties its readers. Both side conditions are necessary: machine-checked histories (older-mtime rename = F7; truncated output whose command line reverts = F17) end stale with exit 0 - both reproduced on the real CLI and recorded as known findings. The dirtiness rule is tied to the installed ninja by evaluating it in Coq on the states of real histories against `ninja -n -v`; the graph conditions the theorem needs (every input named by the command line/response file, outputs disjoint from sources, acyclic, unique outputs) are checked on every build.ninja the driver writes. End to end: random and directed histories over {add, modify, rename, rename-over, remove; change format, metrics, reuse, clip, bitmap options} with faults at nodes of the current graph (picosvg, resvg, pngquant via PATH shims; every python -m step and the driver via sitecustomize: exit non-zero, truncate-and-SIGKILL, driver killed before/while writing build.ninja); faulty invocations must exit non-zero; the final font is compared byte for byte with a clean build; a mismatch is attributed to a known finding only if the root stale file is exactly the truncated output (F17) or reads a source replaced by an older file (F7). Partial: OS/file-system behaviour (timestamp granularity, crashes of the machine) and ninja itself are outside the model.",
        ref="DESIGN.md 8 C09",
    ),
    "C10": dict(
        technique="machine-checked proof in Coq (round-trip theorems for the csv dialect pair, the %04x codec and GlyphMapping rows, with refutation witnesses for the side conditions) + correspondence by vm_compute + field-coverage table from the source",
        text="Unbounded theorems: read_text(write_rows rs) = rs for all rows whose fields have no CR/LF and no unquoted leading space (both conditions shown necessary by machine-checked counter-examples = known finding F4); parse_hex(hex04 n) = n for every n; parse_row(csv_row g) = g for every GlyphMapping incl. the empty codepoint list. The csv model (a state machine) is tied to Python's csv module and to glyphmap.csv_line/load_from by evaluating it in Coq on random rows and arbitrary text. Config precedence and write/load symmetry are exercised for every FontConfig field x {neither,file,flag,both} with real absl flags; a table extracted from config.py's ast requires every field to be written, read, flagged and passed on. File-name recovery, glyph-name legality/distinctness (known finding F3), parts JSON and response files are checked on samples. Glyph names: a Gallina model of glyph_name (un-hashed names) with the theorem that different sequences over code points above U+0020 get different names except for the g_-spelled pair (F3), tied to the code by evaluation in Coq; every listed value of every config field is written and reloaded. File names: a Gallina scanner equal to the regex of codepoints.from_filename on stems that match at their first character (evaluated in Coq against the code), with the theorem that every conventional stem (with or without emoji_u, '-' or '_' separators, any hexadecimal printer) reads back as its sequence.",
        ref="DESIGN.md 8 C10",
    ),
    "C11": dict(
        technique="machine-checked proof in Coq (permutation/sortedness/pairing theorems for the generic coverage + parallel-array rule; completeness of the regenerated rule table against an OpenType schema by vm_compute) + correspondence by vm_compute + name-keyed semantic comparison of real fonts",
        text="Unbounded theorems for every glyph type, record type and glyph-id function: _sort_by_gid returns a permutation sorted by glyph id (strictly, for distinct glyphs) whose parallel array stays paired with its glyphs (the (glyph, record) relation is unchanged); ReorderList sorts and permutes. A table theorem re-checked on every run: the live _REORDER_RULES covers every coverage field of every GSUB/GPOS/GDEF subtable type/format of a hand-written schema (cross-checked against fontTools' otData) with exactly its parallel array. The model is tied to the code by evaluating it in Coq on random inputs, and reorder_glyphs + save + reload is run on synthetic fonts containing all 25 schema entries, comparing schema-driven name-keyed canonical forms of GSUB/GPOS/GDEF, cmap, hmtx, glyf (incl. composites), CFF and CFF2 outlines (what each name draws, by pen; finding F19, fixed) and COLR v0/v1, and checking raw coverage order.",
        ref="DESIGN.md 8 C11",
    ),
    "C12": dict(
        technique="machine-checked proof in Coq (glyph-order construction of _copy_svg keeps donor glyph ids and permutes; {gid:05d} naming round trip; advance and placement identities of the extract/generate steps) + correspondence by vm_compute + real maximum_color CLI runs compared name-keyed with their inputs",
        text="Unbounded theorems: when _copy_svg's order construction succeeds every donor SVG glyph sits at its donor glyph id and the new order is a permutation of the target's (for any glyph type, any increasing gid ranges); the file stem written for a glyph id reads back as that id for every id, so the glyphmap maps each per-glyph SVG to the original glyph; width=0 with viewBox 0 0 w (asc-desc) gives advance exactly w; an OT-SVG glyph extracted under translate(0,asc) lands on its font-space mirror image with scale 1 and no shift; an SVG generated under viewBox=glyph_region is rebuilt with the identity placement. The order model is tied to the real _copy_svg (run on fake fonts) by evaluation in Coq, incl. the IndexError case. End to end through the real `python -m nanoemoji.maximum_color`: fonts nanoemoji emits (glyf COLRv0/v1, CFF and CFF2 COLRv1 as .otf, picosvg, untouchedsvg; sequences) and hand-made-style COLR/SVG fonts (kerning, mark, ligature and contextual lookups, two palettes, no space glyph, colour glyphs whose name order differs from gid order) x {--bitmaps, --colr_version 0/1, --keep_glyph_names}: cmap, advances, outlines, GSUB/GPOS/GDEF meaning, name, line metrics, the original colour table and CPAL are compared name-keyed; every colour table must cover the same glyphs and COLR and OT-SVG must paint the same picture per glyph; the output must satisfy the C07 validity predicates; the stripped build must equal the kept-names build minus names. Documented limits (CBDT bitmap wider than 255 px, signed-byte line metrics, a palette variable with two opacities in COLRv0) count as rejections only when the input justifies them. CBDT pixels are not compared. Also proved: _copy_colr's glyph order keeps every target glyph id and names each glyph once iff the donor's layer names are fresh in the target.",
        ref="DESIGN.md 8 C12",
    ),
    "C13": dict(
        technique="machine-checked proof in Coq (refinement: the modelled COLR->SVG traversal paints, through the font-to-viewBox map, exactly the layers the COLR graph paints, for every supported paint graph of any depth; inverse placement, conjugated path transform, projection-point linear gradient) + correspondence by vm_compute of the written element tree against the model + end-to-end comparison of colr_to_svg output against an independent COLR renderer on generated paint graphs",
        text="Unbounded theorems over any field: (traversal) for every paint graph in the supported class - any nesting of PaintColrLayers, the ten transform paints above and below a PaintGlyph, PaintColrGlyph through the base glyph records, SRC_IN-over-black group opacity - the element tree Model.SvgTree.to_svg writes (path transform attribute V t V^-1 with the pending transform reset, <g transform> for a transformed PaintColrGlyph, <g opacity>, gradient coordinates mapped by (fill transform ; V)) paints the same glyphs in the same order, each outline at V o (COLR placement) and each fill geometry at V o (COLR fill placement) under the same group opacities, as the COLR graph does by the COLR specification (proved by induction with the invariant V;acc = C;V;t); the written linear gradient (mapped points, then P3) has the COLR colour parameter at the image of every point; the font->viewBox map undoes the source placement; a <path> drawn through V with transform V A V^-1 shows V(A(outline)); the SVG gradient through P0 and the projection point P3 has exactly the colour function of the COLR gradient (P0,P1,P2) for every non-degenerate rotated P2. End to end: COLRv1 fonts are built with fontTools.colorLib from generated paint graphs (all supported paint formats incl. Rotate/Skew/ColrGlyph/composite glyphs that nanoemoji itself never emits, 3 extend modes, 1-3 palettes, several viewBoxes), converted by the real colr_to_svg, and the SVG (rendered by the independent interpreter, mapped back by the placement) is compared layer by layer with the COLR rendering of the graph; COLRv0 likewise; every unsupported format (sweep, Var*, other composite modes) must raise or warn - enumerated. The traversal model is tied to the code by reading the compiled COLR table independently, running the real _colr_v1_glyph_to_svg, and comparing the element tree it wrote (transform attributes, which glyph each d draws, solid/linear/radial fill geometry, groups) with to_svg evaluated in Coq on the same graph (tolerances for the three-decimal attribute rounding).",
        ref="DESIGN.md 8 C13",
    ),
    "C14": dict(
        technique="machine-checked proof in Coq (lra/lia theorems about ppem, bitmap metrics with Python's half-even round, int8 nudge, strike runs, offsets) + correspondence by vm_compute",
        text="Unbounded theorems over all integer metrics: ppem within 1/2 of upem*h/em; accepted metrics are representable; the bitmap's vertical centre is within 7/4 px (3/4 without the int8 nudge) of the scaled em-box centre and its edges follow with the explicit size mismatch; horizontal centring within 3/2 px for the repaired code and a machine-checked refutation for the original (finding F8, fixed); strikes are maximal runs of consecutive gids partitioning the sorted glyph list; offsets contiguous with 9+len records. Tied to bitmap_tables by evaluating the model in Coq on the same random metrics/images, and to make_cbdt_table/make_sbix_table by running them on fake fonts with real PNG bytes (image bytes, sizes, run structure). Whole cbdt/sbix fonts built in process: image bytes, strike ppem = round(upem x height / em), font advance scaled to the strike vs bitmap width and pixel advance.",
        ref="DESIGN.md 8 C14",
    ),
    "C15": dict(
        technique="machine-checked proof in Coq (loop-invariant proof of the palette slot loop for every finite colour set) + correspondence by vm_compute",
        text="Unbounded theorem: for every finite list of colours the deque loop of uniq_sort_cpal_colors never indexes an empty deque, ends empty, and returns exactly the specified palette (indexed colours at their index, unindexed ascending in the lowest free slots, black gaps, length max(|set|, maxidx+1) > 0, conflict => error). Tied to the code by evaluating the model in Coq on the property's small universe (exhaustive in the thorough tier) and random large sets; the implementation's outputs are judged by an independent executable spec. Whole COLRv1/COLRv0 fonts (same RGBA at several indices and unindexed, translucent indexed colours, currentColor): CPAL against an independent spec and every layer's palette index and alpha against its declaration. Also proved: the palette is a function of the set of colours (permuting or repeating them changes nothing) for any strict weak rgba order that separates different unindexed colours; whole-font oracle includes gradients whose stops declare palette indices.",
        ref="DESIGN.md 8 C15",
    ),
    "C16": dict(
        technique="machine-checked proof in Coq (abstract-field theorems about a Gallina model of paint.transformed) + correspondence by vm_compute",
        text="Theorems over an arbitrary field about the executable model of paint.transformed (exact denotation per branch, encodability), constants regenerated from fixed.py and proved equal to the OpenType ranges; the model (also of the gradient transforms and the uniform/residual split) is tied to the code by evaluating it inside Coq on the stratified inputs the real functions ran on, and the implementation's outputs are judged by executable property predicates. The affine each emitted transform paint reports (gettransform, used by traversals, clip boxes and COLRv0 components) is compared with the model for every generated case. What is written from the paints is checked too: the COLR record of every emitted transform paint is decoded by the format definitions and compared with the paint's affine, and the gradient svg._apply_paint writes under nested transform paints and an outer reuse transform is compared with the paint tree at sample points and circles.",
        ref="DESIGN.md 8 C16",
    ),
    "C17": dict(
        technique="machine-checked proof in Coq (acceptance of a build's inputs <-> pairwise distinct glyph names; master validation) + correspondence by vm_compute + negative tests through the real CLI for every defect class, position and format",
        text="Unbounded theorems: the input loop accepts a list of glyph inputs exactly when their glyph names are pairwise distinct, so an accepted build maps sources to glyphs injectively (nothing merged, nothing missing); accepted master sets are non-empty, have unique source names per master and equal name sets. Tied to write_font by running the real acceptance on generated sequence lists. End to end through the real CLI: each defect class (duplicate codepoints/sequence/file name, colliding glyph names, malformed XML, unparsable colour, unknown spreadMethod, palette index conflict, oversize CBDT bitmap, missing viewBox) at random positions among 0-5 valid sources in every format it applies to must exit non-zero and leave no fresh font; a valid control must build. Found and fixed: duplicate inputs were merged silently with exit 0 (F2). Two-master builds whose later master lacks, or has, an extra source (and an agreeing control) cover the 'masters disagree' class.",
        ref="DESIGN.md 8 C17",
    ),
    "C18": dict(
        technique="machine-checked proof in Coq (designspace axis range contains every master; non-negative weighted sums are monotone, hence interpolated clip boxes contain interpolated geometry on an axis) + real CLI multi-master builds instantiated at master and intermediate locations",
        category="other",
        text="Partial by nature: interpolation is ufo2ft.compileVariableTTF / fontTools.varLib. Proved: the axis range written to the designspace contains every master position; for any number of masters and non-negative weights an edge-wise inequality between master values survives interpolation (the convexity argument for 'the clip box in force contains the interpolated geometry' on one axis, assuming the engine interpolates piecewise linearly between adjacent masters). End to end through the real CLI: two- and three-master configurations with structurally identical sources are built; the variable font is instantiated with fontTools' instancer at every master location and compared (COLR picture, advance, clip box evaluated from COLR's own variation store) with the static CLI build of that master; at intermediate locations the interpolated clip box must contain the interpolated outlines; masters with different source sets must fail. Cases include a slant axis whose default 0 is not the lowest position, two axes declared out of tag order, and the un-instanced default location against the default master.",
        ref="DESIGN.md 8 C18",
    ),
    "C19": dict(
        technique="machine-checked proof in Coq (isometry invariance of the exact normal form over any field; reuse-is-taken theorem on the cache model) + end-to-end count of shared outlines in built fonts",
        text="Unbounded theorems over any field: the exact normal form used to recognise shapes (first significant vector to (1,0), first significant y to 1) is invariant under every rotation and reflection (c^2+s^2=1), norms that drive the significance thresholds are preserved, translations do not enter; on the cache model reuse is taken whenever a donor with the same normal form exists and the recogniser returns a representable affine, and only tolerance -1 disables it. End to end: fonts built from a few structurally different base shapes and congruent copies (exact grid isometries and generic angles) in glyf_colr_1, glyf_colr_0 and picosvg: every copy must draw from one outline glyph / one <path>, and with -1 all are separate. Known finding F14: picosvg snaps the normal form to multiples of tolerance/10, so copies whose normal form has a coordinate on a rounding boundary are missed. Sharing is also checked after a re-run in a directory built with the opposite setting and next to a configuration over the same files that asks for the opposite.",
        ref="DESIGN.md 8 C19",
    ),
    "C20": dict(
        technique="machine-checked proof in Coq (flag > file > default for every option type; the colour-format table regenerated from the live modules equals the documented one, and the option-path table regenerated from config.py by an ast translator is complete, both by vm_compute) + real CLI builds observing each option in the written font",
        text="Theorems: the resolution rule picks the flag if given, else the file value, else the default; the live table of the 13 colour formats (input kinds, OT-SVG-ness, outline flavour, has_* predicates) is exactly the documented table - re-checked against the source on every run (this theorem failed on the unchanged tree and exposed is_ot_svg being always False: fixed, F15); the option-path table (one row per FontConfig field, regenerated from config.py's text by a fail-closed ast translator) shows for each of the 23 documented options a flag of the documented kind whose unset value is None, the key written by config.write, the _pop_flag read in config.load (whose body is the modelled rule), and the keyword handed to FontConfig - no field left out, nothing else written. End to end through the real CLI: every observable option is given by file, by flag and by both with different values, and its observable is read from the written font (name, head, hhea, OS/2 incl. fsSelection bit 7, hmtx, post, table tags and COLR version, file name and outline flavour, ClipList edges, CBLC/CBDT strike size, SVG text, glyph placement under --transform, reuse on/off, clipping) or from build.ninja for compression options; a build without options must show the documented defaults; pairs of configurations in one invocation must equal the fonts built alone. Found and fixed: picosvg keyed by source (F5), --reuse_tolerance -1 crashed the CLI (F16); known: bitmap intermediates keyed by name (F5b). Re-run jobs (the option changed between two invocations in one build directory), keep_glyph_names in the CFF/CFF2 flavours; known finding F22: a user's fea_file never reaches the font through the command line.",
        ref="DESIGN.md 8 C20",
    ),
}

NOT_YET = "check not built yet (work in progress; see DESIGN.md section 13)"
NOT_APPLICABLE = {}


def main():
    props = [json.loads(l) for l in (VERIF / "properties.jsonl").read_text().splitlines() if l.strip()]
    checks = []
    for pid in sorted(CLAIMED):
        c = CLAIMED[pid]
        checks.append(
            {
                "property_id": pid,
                "quick_cmd": f"./check {pid} --tier quick",
                "thorough_cmd": f"./check {pid} --tier thorough",
                "evidence_file": f"/verif/evidence/{pid}.json",
                "replay_cmd_template": f"./check {pid} --replay {{path}}",
                "engine": "coq",
                "technique": c["technique"],
                "level_claimed": {"category": c.get("category", "proof"), "text": c["text"], "design_ref": c["ref"]},
                "level_note": c.get("note", COMMON_NOTE),
            }
        )
    m = {
        "version": 1,
        "setup_cmd": "./setup.sh",
        "hooks": {
            "guard": "NANOEMOJI_VERIF",
            "enable": "no source hooks are needed: the harness imports /repo/src from outside and sets NANOEMOJI_VERIF=1 for its own processes",
            "baseline_off_cmd": "cd /repo && /venv/bin/python -m pytest -ra -q -p no:cacheprovider --timeout=900 --continue-on-collection-errors",
            "source_commits": [],
            "add_only": True,
        },
        "engines": [
            {
                "name": "coq",
                "path": "/verif/coq",
                "serves_properties": sorted(CLAIMED),
                "kind_free_text": "Coq 8.16.1 development: Model/ (executable Gallina), Proofs/, Props/ (one file per property), Generated/ (tables regenerated from /repo each run), Corr/ (correspondence evaluators run by vm_compute)",
            }
        ],
        "checks": checks,
        "not_applicable": [
            {"property_id": p["id"], "reason": NOT_APPLICABLE.get(p["id"], NOT_YET)}
            for p in props
            if p["id"] not in CLAIMED
        ],
        "notes": "See DESIGN.md. ./check <id> --tier quick|thorough",
    }
    (VERIF / "MANIFEST.json").write_text(json.dumps(m, indent=1) + "\n")


if __name__ == "__main__":
    main()
