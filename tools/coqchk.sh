#!/bin/bash
# independent re-check of the compiled development with coqchk, listing the axioms the
# property theorems' closure relies on; writes /verif/coqchk_report.txt
cd "$(dirname "$0")/../coq"
mods=$(ls Props/C*.v | sed 's|Props/\(.*\)\.v|Verif.Props.\1|' | tr '\n' ' ')
{ echo "coqchk -silent -o -Q . Verif $mods"; echo "run: $(date -u +%Y-%m-%dT%H:%MZ), $(coqchk --version 2>/dev/null | head -1)"; timeout 7200 coqchk -silent -o -Q . Verif $mods 2>&1 | tail -40; } > ../coqchk_report.txt
tail -15 ../coqchk_report.txt
