#!/venv/bin/python
"""Apply each seeded change (seeded/<id>/seed_k.diff, made by a sub-agent that saw only the
property text) to /repo's working tree, run ./check <id> --tier quick, undo with git checkout.
Writes seeded/results.json.  Not part of any check."""
import json
import subprocess
import sys
import time
from pathlib import Path


def run(cmd, **kw):
    return subprocess.run(cmd, capture_output=True, text=True, **kw)


def main():
    want = set(sys.argv[1:])
    root = Path("/verif/seeded")
    res_path = root / "results.json"
    results = json.loads(res_path.read_text()) if res_path.is_file() else {}
    if run(["git", "-C", "/repo", "status", "--porcelain", "--", "src"]).stdout.strip():
        sys.exit("/repo/src is not clean")
    for d in sorted(p for p in root.iterdir() if p.is_dir()):
        for diff in sorted(d.glob("*.diff")):
            key = f"{d.name}/{diff.stem}"
            if want and d.name not in want and key not in want:
                continue
            a = run(["git", "-C", "/repo", "apply", str(diff)])
            t = time.time()
            try:
                if a.returncode != 0:
                    results[key] = dict(outcome="patch does not apply: " + a.stderr[-200:])
                    continue
                extra = sys.argv  # noqa
                c = run(["./check", d.name, "--tier", "quick"], cwd="/verif", timeout=3600)
                lines = [l for l in c.stdout.splitlines() if l.startswith("VIOLATION")]
                results[key] = dict(outcome="detected" if c.returncode == 1 and lines else f"NOT detected (exit {c.returncode})", first=lines[:1], wall_s=round(time.time() - t, 1))
            finally:
                run(["git", "-C", "/repo", "checkout", "--", "."])
            print(key, results[key]["outcome"], flush=True)
            res_path.write_text(json.dumps(results, indent=1) + "\n")


if __name__ == "__main__":
    main()
