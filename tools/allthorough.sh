#!/bin/bash
# maintenance: run every claimed check's thorough tier once on the current tree, with timing
cd "$(dirname "$0")/.."
for id in ${@:-$(python3 -c "import json;print(' '.join(c['property_id'] for c in json.load(open('MANIFEST.json'))['checks']))")}; do
  t0=$(date +%s)
  out=$(timeout 7200 ./check $id --tier thorough 2>&1 | grep -v KNOWN-FINDING | tail -3)
  rc=${PIPESTATUS[0]}
  echo "$id rc=$rc $(( $(date +%s) - t0 ))s $out"
done
echo allthorough-done
