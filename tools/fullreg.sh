#!/bin/bash
cd /verif
SEEDS="1 2 3 4" tools/allseeds.sh > /var/tmp/fr_allseeds.log 2>&1
/venv/bin/python tools/run_seeded.py > /var/tmp/fr_seeded.log 2>&1
/venv/bin/python tools/mutants.py > /var/tmp/fr_mutants.log 2>&1
/venv/bin/python tools/regress_fixed.py > /var/tmp/fr_regress.log 2>&1
echo fullreg-done > /var/tmp/fr_done
