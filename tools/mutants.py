#!/venv/bin/python
"""Hand-written breaking changes (one-line mutations of /repo) used to check that the checks
notice: `tools/mutants.py [Cxx ...]` applies each mutation to /repo's working tree, runs
./check <property> --tier quick, restores the tree with `git checkout`, and writes
tools/mutants_result.json.  /repo must be clean when it starts.  Not part of any check."""
import json
import subprocess
import sys
import time
from pathlib import Path

REPO = Path("/repo")
S = "src/nanoemoji/"
M = [
    # (id, property, file, old, new, what)
    ("m01a", "C01", S + "color_glyph.py", "dx = (width - scale * view_box.w) / 2", "dx = (width - view_box.w) / 2", "horizontal centring ignores the scale"),
    ("m01b", "C01", S + "color_glyph.py", "return max(config.width, round(font_height * view_box.w / view_box.h))", "return max(config.width, int(font_height * view_box.w / view_box.h))", "advance truncated instead of rounded"),
    ("m02a", "C02", S + "color_glyph.py", "Affine2D(1, 0, 0, 1, 0, -ascender),", "Affine2D(1, 0, 0, 1, 0, -(ascender - descender)),", "OT-SVG baseline shift uses the em height"),
    ("m02b", "C02", S + "svg.py", 'svg_use.attrib["x"] = _ntos(tx)', 'svg_use.attrib["x"] = _ntos(ty)', "use x takes the y translation"),
    ("m03a", "C03", S + "write_font.py", "layers.append((glyph_name, color.index_from(palette)))", "layers.append((glyph_name, 0))", "every COLRv0 layer uses palette entry 0"),
    ("m03b", "C03", S + "write_font.py", "                    Component(baseGlyph=glyph.name, transformation=context.transform)", "                    Component(baseGlyph=glyph.name, transformation=Affine2D.identity())", "glyf components lose their placement"),
    ("m06b", "C06", S + "write_font.py", "for context in root.depth_first():\n        if context.paint.format != PaintGlyph.format:", "for context in root.breadth_first():\n        if context.paint.format != PaintGlyph.format:", "COLRv0 layers breadth first again (F11 back)"),
    ("m04a", "C04", S + "features.py", "for rgi in sorted(rgi_sequences):\n        if len(rgi) == 1:", "for rgi in sorted(rgi_sequences):\n        if len(rgi) <= 2:", "two-codepoint sequences get no ligature"),
    ("m04b", "C04", S + "write_font.py", "need_blanks = all_codepoints - direct_mapped_codepoints", "need_blanks = all_codepoints - direct_mapped_codepoints - {0x200D}", "no glyph for ZWJ"),
    ("m05a", "C05", S + "write_font.py", "int(math.ceil(xMax / factor) * factor),", "int(math.floor(xMax / factor) * factor),", "clip box xMax rounded down"),
    ("m05b", "C05", S + "write_font.py", "                bounds = unionRect(bounds, glyph_bbox)", "                bounds = glyph_bbox", "clip box of the last layer only"),
    ("m06a", "C06", S + "glyph_reuse.py", "        return ReuseResult(glyph_name, affine)", "        return ReuseResult(glyph_name, Affine2D(affine.a, affine.b, affine.c, affine.d, affine.e, -affine.f))", "reuse transform with the wrong sign of dy"),
    ("m07a", "C07", S + "bitmap_tables.py", "color_glyphs = sorted(color_glyphs, key=lambda c: c.glyph_id)", "color_glyphs = list(color_glyphs)", "CBDT glyphs not sorted by glyph id"),
    ("m08a", "C08", S + "config.py", "srcs = tuple(sorted(util.abspath(p) for p in srcs))", "srcs = tuple(util.abspath(p) for p in srcs)", "sources in set (hash) order"),
    ("m09a", "C09", S + "ninja.py", "subprocess.run(ninja_cmd, check=True)", "subprocess.run(ninja_cmd, check=False)", "ninja's failure not propagated"),
    ("m09b", "C09", S + "nanoemoji.py", '        font_config.output_file,\n        "write_font",\n        implicit=list(variables.values()),', '        font_config.output_file,\n        "write_font",\n        implicit=[v for k, v in variables.items() if k != "config_file"],', "font edge does not depend on its config file"),
    ("m09c", "C09", S + "pngquant.py", "    return err", "    return 0", "pngquant failure swallowed"),
    ("m10a", "C10", S + "glyphmap.py", 'row.extend(f"{c:04x}" for c in self.codepoints)', 'row.extend(f"{c:04x}" for c in self.codepoints[:8])', "long sequences truncated in the glyphmap"),
    ("m10b", "C10", S + "config.py", "return flag_value if flag_value is not None else config_value", "return config_value if config_value is not None else flag_value", "file beats flag"),
    ("m11a", "C11", S + "reorder_glyphs.py", "        parallel_list[:] = sorted_parallel_list", "        pass", "parallel array not permuted with its coverage"),
    ("m12a", "C12", S + "glue_together.py", "while len(new_glyph_order) < svg_gid:", "while len(new_glyph_order) <= svg_gid and non_svg_target_glyphs:", "SVG glyph ids shift by one"),
    ("m12b", "C12", S + "write_config_for_mergeable.py", "width = 0  # from input width", "width = {upem}", "advance not taken from the viewBox"),
    ("m12c", "C12", S + "extract_svgs_from_otsvg.py", 'f"translate(0, {ascender})"', 'f"translate(0, {height})"', "extracted SVG shifted by the em height"),
    ("m13a", "C13", S + "colr_to_svg.py", "alpha=alpha * cpal_color.alpha / 255,", "alpha=alpha,", "palette alpha dropped"),
    ("m14a", "C14", S + "bitmap_tables.py", "return round(config.upem * pixels / funits)", "return int(config.upem * pixels / funits)", "ppem truncated"),
    ("m15a", "C15", S + "colors.py", "cpal_slots = max(len(all_colors), max(indexed_colors, default=-1) + 1)", "cpal_slots = max(len(all_colors), max(indexed_colors, default=-1))", "one slot too few for the highest index"),
    ("m16a", "C16", S + "paint.py", "                    cx = dx / (1 - sx)", "                    cx = dx / (1 + sx)", "wrong scale centre"),
    ("m16b", "C16", S + "paint.py", "        if int16_safe(dx, dy):\n            return PaintTranslate(paint=target, dx=dx, dy=dy)", "        if True:\n            return PaintTranslate(paint=target, dx=dx, dy=dy)", "translation not checked for int16"),
    ("m17a", "C17", S + "write_font.py", "        if glyph_input.glyph_name in glyph_names_seen:\n            raise ValueError(", "        if False:\n            raise ValueError(", "duplicate inputs accepted again (F2 back)"),
    ("m19a", "C19", S + "glyph_reuse.py", "        if norm_path not in self._reusable_paths:\n            return None", "        if norm_path not in self._reusable_paths or len(self._reusable_paths) > 1:\n            return None", "reuse only against the first shape"),
    ("m20a", "C20", S + "config.py", "return flag_value if flag_value is not None else config_value", "return config_value if config_value is not None else flag_value", "file beats flag"),
]


def run(cmd, **kw):
    return subprocess.run(cmd, capture_output=True, text=True, **kw)


def main():
    want = set(sys.argv[1:])
    if run(["git", "-C", str(REPO), "status", "--porcelain", "--", "src"]).stdout.strip():
        sys.exit("/repo/src is not clean")
    out_path = Path("/verif/tools/mutants_result.json")
    results = json.loads(out_path.read_text()) if out_path.is_file() else {}
    for mid, prop, rel, old, new, what in M:
        if want and prop not in want and mid not in want:
            continue
        p = REPO / rel
        text = p.read_text()
        if old not in text:
            results[mid] = dict(property=prop, what=what, outcome="pattern not found")
            print(mid, prop, "pattern not found")
            continue
        p.write_text(text.replace(old, new, 1))
        t = time.time()
        try:
            r = run(["./check", prop, "--tier", "quick"], cwd="/verif", timeout=3600)
            lines = [l for l in r.stdout.splitlines() if l.startswith("VIOLATION")]
            outcome = "detected" if r.returncode == 1 and lines else f"NOT detected (exit {r.returncode})"
            results[mid] = dict(property=prop, file=rel, what=what, outcome=outcome, first=lines[:1], wall_s=round(time.time() - t, 1))
        finally:
            run(["git", "-C", str(REPO), "checkout", "--", "src"])
        print(mid, prop, outcome, f"{time.time() - t:.0f}s", flush=True)
        out_path.write_text(json.dumps(results, indent=1) + "\n")


if __name__ == "__main__":
    main()
